"""C01 — object names are content hashes; serialisation is lossless and git-identical.

Bounded-exhaustive enumeration (engine E4 + E3-style setter-history search) of

  A  objects from git's canonical grammar (blobs, trees, commits, tags; SHA-1 and SHA-256), each
     built from field values, serialised, parsed, re-serialised untouched and re-serialised after
     every single-field change;
  B  blobs under every chunking (Blob.chunked / from_raw_chunks);
  H  every sequence of <=k setter/observer calls on a live object (observers fill the caches a
     stale-cache bug needs) with the oracle "live object == fresh object built from the same
     field values";
  G  objects that C git itself builds from field values (mktree, commit-tree incl. signed
     commits through a stub gpg program, tag -a/-s, merge of signed tags -> mergetag).

Oracles: harness-computed hash of `type SP len NUL content`; the independent reference
serialiser/parser engines/refmodels/gitobjects.py; C git in batch mode (hash-object --stdin-paths,
cat-file --batch, mktree --batch, fsck --strict), which also keeps the reference model honest
(reference vs git disagreement = HarnessError, never a violation).
"""

from __future__ import annotations

import hashlib
import itertools
import os
import re
import zlib

from engines import common
from engines.common import Acc, HarnessError, fresh_dir, pmap_acc, replay_generic, rmtree, rp


def git(args, **kw):
    """common.git with an empty stdin unless input is given (git commit-tree with an empty -F file
    falls back to reading stdin; nothing may ever inherit the runner's)."""
    if kw.get("input") is None:
        kw["input"] = b""
    return common.git(args, **kw)

from engines.enumerate import compositions, strings
from engines.refmodels import gitobjects as ref

KINDS = ("blob", "tree", "commit", "tag")
TYPE_NUM = {"commit": 1, "tree": 2, "blob": 3, "tag": 4}
ALGOS = ("sha1", "sha256")

_D = {}


def _O():
    """dulwich.objects bound to the Rust extension rebuilt from the working tree."""
    if not _D:
        paths = common.preload_rust()
        from dulwich import objects as O
        from dulwich.object_format import SHA1, SHA256

        ext = getattr(O.parse_tree, "__module__", None)
        if O.parse_tree is O._parse_tree_py or O.sorted_tree_items is O._sorted_tree_items_py:
            raise HarnessError("dulwich.objects did not bind the Rust parse_tree/sorted_tree_items (%r)" % (ext,))
        import dulwich._objects as ro

        if os.path.abspath(ro.__file__) != os.path.abspath(paths["_objects"]):
            raise HarnessError("dulwich._objects loaded from %s, not the rebuilt %s" % (ro.__file__, paths["_objects"]))
        _D.update(O=O, FMT={"sha1": SHA1, "sha256": SHA256}, rs=(O.parse_tree, O.sorted_tree_items),
                  py=(O._parse_tree_py, O._sorted_tree_items_py))
    return _D["O"], _D["FMT"]


class impl:
    """Bind dulwich.objects.parse_tree/sorted_tree_items to the Rust ('rust') or the pure-Python
    ('py') twin for the duration of a case (both are anchored by the property)."""

    def __init__(self, which):
        self.which = which

    def __enter__(self):
        O, _ = _O()
        self.prev = (O.parse_tree, O.sorted_tree_items)
        O.parse_tree, O.sorted_tree_items = _D["rs"] if self.which == "rust" else _D["py"]

    def __exit__(self, *a):
        O, _ = _O()
        O.parse_tree, O.sorted_tree_items = self.prev


def harness_id(algo, kind, content: bytes) -> bytes:
    """Oracle 1, computed here (not by the reference module, not by dulwich)."""
    h = hashlib.sha1() if algo == "sha1" else hashlib.sha256()
    h.update(kind.encode() + b" " + str(len(content)).encode() + b"\0" + content)
    return h.hexdigest().encode()


# --------------------------------------------------------------------------- id pool / prerequisites

A0 = (b"Base Author <base@example.com>", 1000000000, b"+0000")
PGP_SIG = (b"-----BEGIN PGP SIGNATURE-----\n\niQEzBAABCAAdFiEE\nq83vEjRWeJA=\n=AbCd\n-----END PGP SIGNATURE-----")
SSH_SIG = (b"-----BEGIN SSH SIGNATURE-----\nU1NIU0lHAAAAAQAAADMAAAALc3NoLWVkMjU1MTkAAAAg\nAAAAQHh4eHg=\n-----END SSH SIGNATURE-----")

_POOL = {}


def pool(algo):
    """Real objects the enumerated ones refer to (so that `git fsck` finds every link)."""
    if algo in _POOL:
        return _POOL[algo]
    P = {"prereq": []}

    def put(name, kind, L):
        data = ref.serialize(kind, L, algo)
        P[name] = ref.object_id(algo, kind.encode(), data)
        P["prereq"].append((kind, data, P[name]))
        return P[name]

    put("B0", "blob", b"")
    put("B1", "blob", b"x\n")
    put("T0", "tree", ())
    put("T1", "tree", ((b"f", 0o100644, P["B0"]),))
    put("C0", "commit", ref.commit(P["T0"], (), A0, A0, message=b"c0\n"))
    put("C1", "commit", ref.commit(P["T0"], (P["C0"],), A0, A0, message=b"c1\n"))
    put("C2", "commit", ref.commit(P["T1"], (P["C0"],), A0, A0, message=b"c2\n"))
    put("C3", "commit", ref.commit(P["T1"], (P["C1"], P["C2"]), A0, A0, message=b"c3\n"))
    put("G0", "tag", ref.tag(P["C0"], b"commit", b"g0", A0, b"g0\n"))
    # mergetag texts (signed tags of C2 / C1)
    P["MT_PGP"] = ref.serialize_tag(ref.tag(P["C2"], b"commit", b"signed-1", A0, b"release 1\n", PGP_SIG + b"\n"))
    P["MT_SSH"] = ref.serialize_tag(ref.tag(P["C1"], b"commit", b"signed-2", A0, b"release 2\n\ndetails\n", SSH_SIG + b"\n"))
    # mergetags whose tag text ends in two or more LFs (empty message; message ending in a blank line; blank line
    # after the signature): their continuation lines at the end of the header value are " \n"
    P["MT_EMPTYMSG"] = ref.serialize_tag(ref.tag(P["C2"], b"commit", b"empty-msg", A0, b""))
    P["MT_BLANKEND"] = ref.serialize_tag(ref.tag(P["C1"], b"commit", b"blank-end", A0, b"release 3\n\n"))
    P["MT_SIGBLANK"] = ref.serialize_tag(ref.tag(P["C2"], b"commit", b"sig-blank", A0, b"release 4\n", PGP_SIG + b"\n\n"))
    _POOL[algo] = P
    return P


def mode_id(algo, mode):
    P = pool(algo)
    if mode == 0o40000:
        return P["T0"]
    if mode == 0o160000:
        return P["C0"]
    return P["B0"]


# --------------------------------------------------------------------------- dulwich adapter


def _set_ident(o, prefix, time_attr, tz_attr, ident):
    who, when, tz = ident
    secs, neg = ref.tz_seconds(tz)
    setattr(o, prefix, who)
    setattr(o, time_attr, when)
    setattr(o, tz_attr, secs)
    if neg:
        # no public setter exists for the "-0000" flag; dulwich's own tests set it the same way
        setattr(o, "_" + tz_attr + "_neg_utc", True)


def d_build(kind, L, algo, variant=0):
    """A fresh dulwich object built from field values through the public setters."""
    O, FMT = _O()
    if kind == "blob":
        b = O.Blob()
        if variant == 0:
            b.data = L
        else:
            b.chunked = [L[: len(L) // 2], L[len(L) // 2 :]]
        return b
    if kind == "tree":
        t = O.Tree()
        t.object_format = FMT[algo]
        if variant == 0:
            for n, m, i in L:
                t.add(n, m, i)
        else:
            for n, m, i in reversed(list(L)):
                t[n] = (m, i)
        return t
    if kind == "commit":
        c = O.Commit()
        c.tree = L["tree"]
        c.parents = list(L["parents"])
        _set_ident(c, "author", "author_time", "author_timezone", L["author"])
        _set_ident(c, "committer", "commit_time", "commit_timezone", L["committer"])
        if L["encoding"] is not None:
            c.encoding = L["encoding"]
        if L["mergetags"]:
            c.mergetag = [O.Tag.from_string(r) for r in L["mergetags"]]
        if L["extra"]:
            c._extra = [(k, v) for k, v in L["extra"]]  # no public accessor exists for extra headers
        if L["gpgsig"] is not None:
            c.gpgsig = L["gpgsig"]
        c.message = L["message"]
        return c
    if kind == "tag":
        t = O.Tag()
        t.object = (O.object_class(L["type"]), L["object"])
        t.name = L["name"]
        if L["tagger"] is not None:
            _set_ident(t, "tagger", "tag_time", "tag_timezone", L["tagger"])
        t.message = L["message"]
        t.signature = L["signature"]
        return t
    raise AssertionError(kind)


def _ident_fields(prefix, time_attr, tz_attr, ident):
    if ident is None:
        return {prefix: None, time_attr: None, tz_attr: None, tz_attr + "_neg_utc": False}
    who, when, tz = ident
    secs, neg = ref.tz_seconds(tz)
    return {prefix: who, time_attr: when, tz_attr: secs, tz_attr + "_neg_utc": neg}


def d_expected(kind, L):
    """The dulwich field values that correspond to the logical value L."""
    if kind == "blob":
        return {"data": L}
    if kind == "tree":
        return {"entries": tuple(ref.sort_entries(L))}
    if kind == "commit":
        d = {"tree": L["tree"], "parents": tuple(L["parents"])}
        d.update(_ident_fields("author", "author_time", "author_timezone", L["author"]))
        d.update(_ident_fields("committer", "commit_time", "commit_timezone", L["committer"]))
        d.update(encoding=L["encoding"], mergetag=tuple(L["mergetags"]), extra=tuple(L["extra"]), gpgsig=L["gpgsig"],
                 message=L["message"])
        return d
    if kind == "tag":
        d = {"object": (L["type"], L["object"]), "name": L["name"]}
        d.update(_ident_fields("tagger", "tag_time", "tag_timezone", L["tagger"]))
        d.update(message=L["message"], signature=L["signature"])
        return d
    raise AssertionError(kind)


def d_observed(kind, o):
    if kind == "blob":
        return {"data": o.data}
    if kind == "tree":
        return {"entries": tuple((e.path, e.mode, e.sha) for e in o.items())}
    if kind == "commit":
        return {
            "tree": o.tree, "parents": tuple(o.parents),
            "author": o.author, "author_time": o.author_time, "author_timezone": o.author_timezone,
            "author_timezone_neg_utc": o._author_timezone_neg_utc,
            "committer": o.committer, "commit_time": o.commit_time, "commit_timezone": o.commit_timezone,
            "commit_timezone_neg_utc": o._commit_timezone_neg_utc,
            "encoding": o.encoding, "mergetag": tuple(t.as_raw_string() for t in o.mergetag),
            "extra": tuple((k, v) for k, v in o._extra), "gpgsig": o.gpgsig, "message": o.message,
        }
    if kind == "tag":
        cls, sha = o.object
        return {
            "object": (cls.type_name, sha), "name": o.name, "tagger": o.tagger, "tag_time": o.tag_time,
            "tag_timezone": o.tag_timezone, "tag_timezone_neg_utc": o._tag_timezone_neg_utc,
            "message": o.message, "signature": o.signature,
        }
    raise AssertionError(kind)


def d_parse(kind, data, algo):
    O, FMT = _O()
    return O.ShaFile.from_raw_string(TYPE_NUM[kind], data, object_format=FMT[algo])


def first_field_diff(exp, obs):
    for k in exp:
        if exp[k] != obs.get(k, "<absent>"):
            return k
    return None


def check_ids(acc, o, algo, kind, where, replay):
    """Oracle 1: every name the object reports is the hash of ITS OWN current bytes."""
    O, FMT = _O()
    # names first, bytes last: as_raw_string() refreshes caches a stale name would otherwise show
    got_id, got_sha, got_alg, got_len = o.id, o.sha().hexdigest().encode(), o.get_id(FMT[algo]), o.raw_length()
    data = o.as_raw_string()
    bad = []
    if got_id != harness_id("sha1", kind, data):
        bad.append("id")
    if got_sha != harness_id("sha1", kind, data):
        bad.append("sha()")
    if got_alg != harness_id(algo, kind, data):
        bad.append("get_id(%s)" % algo)
    if got_len != len(data):
        bad.append("raw_length")
    if bad:
        acc.violation("%s:%s:%s-is-not-hash-of-own-content" % (kind, where, bad[0]),
                      "%s %s: %s disagree(s) with hash(%r...)" % (kind, where, "/".join(bad), data[:60]), replay)
    return not bad


# --------------------------------------------------------------------------- single-field edits


def _other(cur, *cands):
    for c in cands:
        if c != cur:
            return c
    raise AssertionError


def _with(L, **kw):
    d = dict(L)
    d.update(kw)
    return d


def _tz_alt(ident):
    """(new offset in seconds, its canonical spelling): never 0 (a zero offset is ambiguous
    for an object that was spelled -0000)."""
    secs, _ = ref.tz_seconds(ident[2])
    new = _other(secs, 3600, -5400)
    return new, ref.tz_text(new)


def edits(kind, L, algo):
    """[(field-label, apply(obj), L2)] — every public setter once or twice with a value that
    differs from the current one; L2 is the logical value after the edit."""
    O, FMT = _O()
    P = pool(algo)
    out = []
    if kind == "blob":
        v = _other(L, b"changed\n", b"")
        out.append(("data", lambda o, v=v: setattr(o, "data", v), v))
        out.append(("chunked", lambda o: setattr(o, "chunked", [b"ch", b"", b"unk"]), b"chunk"))
        return out
    if kind == "tree":
        ents = list(L)
        names = [e[0] for e in ents]
        for n, m, i in ents[:2]:
            m2 = 0o100644 if m == 0o40000 else 0o40000  # file <-> directory flips the sort position
            L2 = tuple((n, m2, mode_id(algo, m2)) if e[0] == n else e for e in ents)
            out.append(("__setitem__", lambda o, n=n, m2=m2: o.__setitem__(n, (m2, mode_id(algo, m2))), L2))
        new = _other(None, *[x for x in (b"a", b"a.", b"b") if x not in names])
        out.append(("add", lambda o: o.add(new, 0o40000, P["T0"]), tuple(ents) + ((new, 0o40000, P["T0"]),)))
        out.append(("__setitem__", lambda o: o.__setitem__(new, (0o100755, P["B0"])), tuple(ents) + ((new, 0o100755, P["B0"]),)))
        for n in names[:2]:
            out.append(("__delitem__", lambda o, n=n: o.__delitem__(n), tuple(e for e in ents if e[0] != n)))
        return out
    if kind == "commit":
        a, c = L["author"], L["committer"]
        out.append(("tree", lambda o: setattr(o, "tree", _other(L["tree"], P["T1"], P["T0"])),
                    _with(L, tree=_other(L["tree"], P["T1"], P["T0"]))))
        p2 = tuple(L["parents"]) + (P["C3"],)
        out.append(("parents", lambda o: setattr(o, "parents", list(p2)), _with(L, parents=p2)))
        if L["parents"]:
            out.append(("parents", lambda o: setattr(o, "parents", []), _with(L, parents=())))
        for f, tf, zf, idn in (("author", "author_time", "author_timezone", a), ("committer", "commit_time", "commit_timezone", c)):
            who = _other(idn[0], b"Other Person <other@example.org>")
            out.append((f, lambda o, f=f, who=who: setattr(o, f, who), _with(L, **{f: (who, idn[1], idn[2])})))
            t2 = _other(idn[1], 1700000000)
            out.append((tf, lambda o, tf=tf, t2=t2: setattr(o, tf, t2), _with(L, **{f: (idn[0], t2, idn[2])})))
            z2, ztxt = _tz_alt(idn)
            out.append((zf, lambda o, zf=zf, z2=z2: setattr(o, zf, z2), _with(L, **{f: (idn[0], idn[1], ztxt)})))
        e2 = _other(L["encoding"], b"UTF-16")
        out.append(("encoding", lambda o: setattr(o, "encoding", e2), _with(L, encoding=e2)))
        if L["encoding"] is not None:
            out.append(("encoding", lambda o: setattr(o, "encoding", None), _with(L, encoding=None)))
        mt2 = () if L["mergetags"] else (P["MT_PGP"],)
        out.append(("mergetag", lambda o: setattr(o, "mergetag", [O.Tag.from_string(r) for r in mt2]), _with(L, mergetags=mt2)))
        g2 = None if L["gpgsig"] is not None else PGP_SIG
        out.append(("gpgsig", lambda o: setattr(o, "gpgsig", g2), _with(L, gpgsig=g2)))
        m2 = _other(L["message"], b"changed message\n")
        out.append(("message", lambda o: setattr(o, "message", m2), _with(L, message=m2)))
        if L["message"] is not None:
            out.append(("message", lambda o: setattr(o, "message", None), _with(L, message=None)))
        return out
    if kind == "tag":
        tcls, tid = _other((L["type"], L["object"]), (b"commit", P["C1"]), (b"tree", P["T1"]))
        out.append(("object", lambda o: setattr(o, "object", (O.object_class(tcls), tid)), _with(L, type=tcls, object=tid)))
        n2 = _other(L["name"], b"renamed")
        out.append(("name", lambda o: setattr(o, "name", n2), _with(L, name=n2)))
        g = L["tagger"]
        if g is not None:
            who = _other(g[0], b"Other Person <other@example.org>")
            out.append(("tagger", lambda o: setattr(o, "tagger", who), _with(L, tagger=(who, g[1], g[2]))))
            out.append(("tagger", lambda o: setattr(o, "tagger", None), _with(L, tagger=None)))
            t2 = _other(g[1], 1700000000)
            out.append(("tag_time", lambda o: setattr(o, "tag_time", t2), _with(L, tagger=(g[0], t2, g[2]))))
            z2, ztxt = _tz_alt(g)
            out.append(("tag_timezone", lambda o: setattr(o, "tag_timezone", z2), _with(L, tagger=(g[0], g[1], ztxt))))
        canon_msg = L["message"] is not None and (L["message"] == b"" or L["message"].endswith(b"\n"))
        if L["message"] is not None:
            m2 = _other(L["message"], b"changed message\n")
            out.append(("message", lambda o: setattr(o, "message", m2), _with(L, message=m2)))
        if L["signature"] is not None:
            out.append(("signature", lambda o: setattr(o, "signature", None), _with(L, signature=None)))
        elif canon_msg:
            out.append(("signature", lambda o: setattr(o, "signature", SSH_SIG + b"\n"), _with(L, signature=SSH_SIG + b"\n")))
        return out
    raise AssertionError(kind)


def touches(kind, o):
    """[(label, fn)] re-assign a field its own value (forces a re-serialisation, changes nothing)."""
    if kind == "blob":
        return [("data", lambda: setattr(o, "data", o.data)), ("chunked", lambda: setattr(o, "chunked", list(o.chunked)))]
    if kind == "tree":
        names = list(o)
        return [("__setitem__", lambda n=n: o.__setitem__(n, o[n])) for n in names[:1]]
    if kind == "commit":
        fs = ("tree", "parents", "author", "committer", "message", "commit_time", "commit_timezone", "author_time",
              "author_timezone", "encoding", "mergetag", "gpgsig")
    else:
        fs = ("object", "name", "tagger", "tag_time", "tag_timezone", "message", "signature")
    return [(f, lambda f=f: setattr(o, f, getattr(o, f))) for f in fs]


def input_class(kind, L, field):
    """Fixed predicates of the *input* that select a different code path for this field."""
    if kind == "commit":
        who = "author" if field.startswith("author") else "committer" if field.startswith("commit") else None
        if who and field.endswith("timezone") and L[who][2] == b"-0000":
            return "[parsed-as--0000]"
    if kind == "tag" and field == "tag_timezone" and L["tagger"] and L["tagger"][2] == b"-0000":
        return "[parsed-as--0000]"
    return ""


# --------------------------------------------------------------------------- family A: one object


def features(kind, L, algo):
    """Structural classes of the enumerated object (vacuity guard)."""
    f = []
    if kind == "blob":
        f.append("blob:size=%s" % (len(L) if len(L) < 4 else ">=4" if len(L) < 4095 else "large"))
    elif kind == "tree":
        f.append("tree:entries=%d" % len(L))
        srt = ref.sort_entries(L)
        if [e[0] for e in srt] != sorted(e[0] for e in L):
            f.append("tree:dir-slash-rule-changes-order")
        for e in L:
            f.append("tree:mode=%o" % e[1])
    elif kind == "commit":
        f.append("commit:parents=%d" % len(L["parents"]))
        f.append("commit:mergetags=%d" % len(L["mergetags"]))
        f.append("commit:extra=%d" % len(L["extra"]))
        if any(b"\n" in v for _, v in L["extra"]):
            f.append("commit:extra-multiline")
        if any(b"\n\n" in v or v.endswith(b"\n") for _, v in L["extra"]):
            f.append("commit:extra-empty-continuation-line")
        f.append("commit:encoding=%s" % ("yes" if L["encoding"] else "no"))
        f.append("commit:gpgsig=%s" % ("none" if L["gpgsig"] is None else "ssh" if b"SSH" in L["gpgsig"] else "pgp"))
        m = L["message"]
        f.append("commit:message=%s" % ("missing" if m is None else "empty" if m == b"" else "no-final-lf" if not m.endswith(b"\n") else "leading-blank" if m.startswith(b"\n") else "text"))
        for who in ("author", "committer"):
            f.append("commit:tz=%s" % L[who][2].decode())
            t = L[who][1]
            f.append("commit:time=%s" % ("negative" if t < 0 else "small" if t < 2**31 else ">=2^31" if t < 2**32 else ">=2^32"))
    else:
        f.append("tag:type=%s" % L["type"].decode())
        f.append("tag:tagger=%s" % ("no" if L["tagger"] is None else "yes"))
        if L["tagger"]:
            f.append("tag:tz=%s" % L["tagger"][2].decode())
        f.append("tag:signature=%s" % ("none" if L["signature"] is None else "ssh" if b"SSH" in L["signature"] else "pgp"))
        m = L["message"]
        f.append("tag:message=%s" % ("missing" if m is None else "empty" if m == b"" else "no-final-lf" if not m.endswith(b"\n") else "text"))
    return f


def case_object(acc: Acc, algo, kind, L, tag="rust", fam="A"):
    """Everything the statement says about ONE logical object (oracles 1-4); returns
    (reference bytes, dulwich loose-object bytes or None)."""
    O, FMT = _O()
    if kind in ("commit", "tag"):
        L = dict(L)
    elif kind == "tree":
        L = tuple(tuple(e) for e in L)
    me = rp(case_object, algo, kind, L, tag, fam)
    K = kind if kind != "tree" else "tree.%s" % tag
    R = ref.serialize(kind, L, algo)
    back = ref.parse(kind, R, algo)
    if (kind == "tree" and tuple(back) != tuple(ref.sort_entries(L))) or (kind != "tree" and back != L):
        raise HarnessError("reference model does not round-trip %s %r -> %r" % (kind, L, back))
    acc.count("%s_objects_%s" % (fam, kind))
    acc.count("evaluations")
    for f in features(kind, L, algo):
        acc.outcome(f)
    exp = d_expected(kind, L)
    loose = None
    with impl(tag):
        # --- build from field values (two construction orders), serialise
        for variant in (0, 1) if kind in ("tree", "blob") else (0,):
            try:
                F = d_build(kind, L, algo, variant)
                fb = F.as_raw_string()
            except Exception as e:
                acc.violation("%s:build:raises-%s" % (K, type(e).__name__), "%r building %s %r" % (e, kind, L), me)
                continue
            cls = ref.diff_class(kind, fb, R, algo)
            acc.outcome("A:build:%s" % cls)
            if cls != "same":
                acc.violation("%s:build:serialise-%s" % (K, cls), "built from %r: got %r want %r" % (L, fb, R), me)
                # oracle 2 on dulwich's own bytes: parse(serialise(x)) has x's field values
                try:
                    d = first_field_diff(d_observed(kind, F), d_observed(kind, d_parse(kind, fb, algo)))
                    if d:
                        acc.violation("%s:roundtrip:field-%s-changes" % (K, d), "serialise->parse of %r changes %s" % (L, d), me)
                except Exception as e:
                    acc.violation("%s:roundtrip:raises-%s" % (K, type(e).__name__), "%r re-parsing own bytes %r" % (e, fb), me)
            check_ids(acc, F, algo, kind, "build", me)
            if variant == 0:
                try:
                    loose = (F.get_id(FMT[algo]), F.as_legacy_object(), fb)
                except Exception as e:
                    acc.violation("%s:build:as_legacy_object-raises-%s" % (K, type(e).__name__), repr(e), me)
        # --- parse the canonical bytes
        try:
            P = d_parse(kind, R, algo)
            obs = d_observed(kind, P)
        except Exception as e:
            acc.violation("%s:parse:raises-%s" % (K, type(e).__name__), "%r parsing %r" % (e, R), me)
            return R, loose
        d = first_field_diff(exp, obs)
        if d:
            acc.violation("%s:parse:field-%s" % (K, d), "parsing %r: %s = %r, want %r" % (R, d, obs.get(d), exp[d]), me)
        if P.as_raw_string() != R:
            acc.violation("%s:parse:as_raw_string-differs" % K, "parsed %r gives back %r" % (R, P.as_raw_string()), me)
        check_ids(acc, P, algo, kind, "parse", me)
        if algo == "sha1":
            Q = getattr(O, kind.capitalize()).from_string(R)
            if first_field_diff(exp, d_observed(kind, Q)) or Q.id != harness_id("sha1", kind, R):
                acc.violation("%s:from_string:differs-from-from_raw_string" % K, "from_string(%r)" % (R,), me)
        # --- re-serialise untouched
        base_cls = set()
        for label, _ in touches(kind, P):
            try:
                P = d_parse(kind, R, algo)
                P.id  # cache filled: the situation a stale-cache bug needs
                dict(touches(kind, P))[label]()
                check_ids(acc, P, algo, kind, "reserialise-unchanged", me)  # names before bytes
                got = P.as_raw_string()
            except Exception as e:
                acc.violation("%s:reserialise-unchanged:raises-%s" % (K, type(e).__name__), "%r after %s=%s on %r" % (e, label, label, R), me)
                continue
            acc.count("reserialise_unchanged")
            cls = ref.diff_class(kind, got, R, algo)
            acc.outcome("A:reserialise-unchanged:%s" % cls)
            base_cls.add(cls)
            if cls != "same":
                acc.violation("%s:reserialise-unchanged:%s" % (K, cls),
                              "parse %r; o.%s = o.%s; as_raw_string() -> %r" % (R, label, label, got), me)
        # --- re-serialise after exactly one field change
        for label, fn, L2 in edits(kind, L, algo):
            want = ref.serialize(kind, L2, algo)
            try:
                P = d_parse(kind, R, algo)
                P.id
                P.get_id(FMT[algo])
                fn(P)
                check_ids(acc, P, algo, kind, "after-set-%s" % label, me)  # names before bytes
                got = P.as_raw_string()
            except Exception as e:
                acc.violation("%s:reserialise-after-set-%s%s:raises-%s" % (K, label, input_class(kind, L, label), type(e).__name__),
                              "%r after changing %s on %r" % (e, label, R), me)
                continue
            acc.count("reserialise_one_field_changed")
            cls = ref.diff_class(kind, got, want, algo)
            acc.outcome("A:one-field-changed:%s" % cls)
            if cls != "same" and cls in base_cls:
                # the same deviation already happens without changing anything: not specific to this field
                acc.violation("%s:reserialise-unchanged:%s" % (K, cls),
                              "parse %r; change %s; got %r want %r" % (R, label, got, want), me)
            elif cls != "same":
                acc.violation("%s:reserialise-after-set-%s%s:%s" % (K, label, input_class(kind, L, label), cls),
                              "parse %r; change %s; got %r want %r" % (R, label, got, want), me)
    return R, loose


# --------------------------------------------------------------------------- family B: blob chunkings


def case_blob_chunks(acc: Acc, chunks):
    """The same content under one chunking, through every way a chunk list reaches a Blob."""
    O, FMT = _O()
    chunks = [bytes(c) for c in chunks]
    content = b"".join(chunks)
    me = rp(case_blob_chunks, chunks)
    acc.count("B_blob_chunkings")
    acc.count("evaluations")
    acc.outcome("B:chunks=%s" % (len(chunks) if len(chunks) < 4 else ">=4"))
    if any(c == b"" for c in chunks):
        acc.outcome("B:has-empty-chunk")
    want1 = harness_id("sha1", "blob", content)
    want2 = harness_id("sha256", "blob", content)

    def judge(how, b):
        bad = None
        if b.as_raw_string() != content or b.data != content or b"".join(b.as_raw_chunks()) != content:
            bad = "content-differs"
        elif b.id != want1 or b.sha().hexdigest().encode() != want1:
            bad = "id-is-not-hash-of-content"
        elif b.get_id(FMT["sha256"]) != want2 or b.get_id(FMT["sha1"]) != want1:
            bad = "get_id-is-not-hash-of-content"
        elif b.raw_length() != len(content):
            bad = "raw_length"
        elif zlib.decompress(b.as_legacy_object()) != b"blob %d\0" % len(content) + content:
            bad = "legacy-object-differs"
        elif O.ShaFile.from_raw_string(3, b.as_raw_string()).id != want1:
            bad = "reparse-id"
        if bad:
            acc.violation("blob:%s:%s" % (how, bad), "chunks=%r" % (chunks,), me)

    b = O.Blob()
    b.chunked = list(chunks)
    judge("chunked-setter", b)
    judge("from_raw_chunks", O.ShaFile.from_raw_chunks(3, list(chunks)))
    b = O.Blob()
    b.set_raw_chunks(list(chunks))
    judge("set_raw_chunks", b)
    # a blob that already answered for other content, then receives these chunks
    b = O.Blob.from_string(b"previous content")
    b.id, b.get_id(FMT["sha256"]), b.as_raw_string()
    b.chunked = list(chunks)
    judge("chunked-setter-after-id", b)
    b = O.Blob.from_string(b"previous content")
    b.id
    b.set_raw_chunks(list(chunks))
    judge("set_raw_chunks-after-id", b)


def blob_contents(quick):
    small = list(strings([b"\x00", b"\n", b"a", b"\xff"], 3))
    mid = [b"a\n\x00\xff", b"\n\n\xffa\x00", b"ab\ncd\n", b"\x00" * 6] if quick else list(strings([b"\x00", b"\n", b"a", b"\xff"], 5, 4)) + [b"ab\ncd\n", b"\x00" * 6]
    return small, mid


def chunkings(content, with_empty):
    n = len(content)
    for comp in compositions(n):
        ch = []
        pos = 0
        for k in comp:
            ch.append(content[pos : pos + k])
            pos += k
        yield ch
        if with_empty:
            for i in range(len(ch) + 1):
                yield ch[:i] + [b""] + ch[i:]


def big_chunkings(n):
    data = bytes((i * 7 + (i >> 8)) & 0xFF for i in range(n))
    yield [data]
    for k in (1, 2, n // 2, 4095, 4096, 4097, n - 1):
        if 0 < k < n:
            yield [data[:k], data[k:]]
    yield [data[i : i + 4096] for i in range(0, n, 4096)]
    yield [data[i : i + 4095] for i in range(0, n, 4095)]
    yield [b"", data, b""]
    yield [data[:1], b"", data[1:-1], data[-1:]]


# --------------------------------------------------------------------------- family H: setter histories

FINAL_OBS = ("id", "raw", "sha", "id256", "len")


def h_base(kind, base):
    """Model (dulwich field space) of the start object."""
    P = pool("sha1")
    if kind == "blob":
        return b"ab\ncd" if base == "plain" else b""
    if kind == "tree":
        if base == "plain":
            return {b"a": (0o100644, P["B0"]), b"a.b": (0o100644, P["B1"])}
        return {b"a": (0o40000, P["T0"]), b"a0": (0o100755, P["B0"]), b"a-": (0o120000, P["B0"])}
    if kind == "commit":
        m = dict(tree=P["T0"], parents=(P["C0"],), author=b"A U Thor <a@example.com>", author_time=1111111111,
                 author_timezone=0, committer=b"C O Mitter <c@example.com>", commit_time=1222222222, commit_timezone=-25200,
                 encoding=None, mergetag=(), gpgsig=None, message=b"subject\n", extra=((b"foo", b"bar"),))
        if base == "rich":
            m.update(parents=(P["C1"], P["C2"]), encoding=b"ISO-8859-1", mergetag=(P["MT_PGP"],), gpgsig=SSH_SIG,
                     extra=((b"multi", b"l1\n\nl3"), (b"foo", b"bar")), author_timezone=19800, commit_timezone=-12600,
                     message=b"subject\n\nbody\n")
        return m
    if kind == "tag":
        m = dict(object=(b"commit", P["C0"]), name=b"v1.0", tagger=b"T Agger <t@example.com>", tag_time=1333333333,
                 tag_timezone=3600, message=b"release\n", signature=None)
        if base == "rich":
            m.update(object=(b"tag", P["G0"]), signature=PGP_SIG + b"\n", tag_timezone=-34200)
        return m
    raise AssertionError(kind)


def h_logical(kind, m):
    """Model -> logical value of the reference model."""
    if kind == "blob":
        return m
    if kind == "tree":
        return tuple((n, mo, i) for n, (mo, i) in sorted(m.items()))
    if kind == "commit":
        return ref.commit(m["tree"], m["parents"], (m["author"], m["author_time"], ref.tz_text(m["author_timezone"])),
                          (m["committer"], m["commit_time"], ref.tz_text(m["commit_timezone"])), m["encoding"],
                          m["mergetag"], m["extra"], m["gpgsig"], m["message"])
    tagger = None if m["tagger"] is None else (m["tagger"], m["tag_time"], ref.tz_text(m["tag_timezone"]))
    return ref.tag(m["object"][1], m["object"][0], m["name"], tagger, m["message"], m["signature"])


def h_ops(kind):
    """The op alphabet: [(label, op-tuple)]; op-tuples are JSON-able (replay)."""
    P = pool("sha1")
    ops = []
    if kind == "blob":
        for v in (b"", b"x\ny", b"\x00\xff"):
            ops.append(("data", ("set", "data", v)))
        for ch in ([], [b"x", b"\ny"], [b"q"]):
            ops.append(("chunked", ("set", "chunked", ch)))
        ops.append(("set_raw_string", ("set", "set_raw_string", b"raw")))
        ops.append(("set_raw_chunks", ("set", "set_raw_chunks", [b"r", b"", b"c"])))
        extra_obs = ("data", "chunked", "splitlines", "check")
    elif kind == "tree":
        ops += [
            ("__setitem__", ("setitem", b"a", 0o100644, P["B1"])),
            ("__setitem__", ("setitem", b"a", 0o40000, P["T1"])),
            ("__setitem__", ("setitem", b"a.b", 0o100755, P["B0"])),
            ("__setitem__", ("setitem", b"a0", 0o100644, P["B0"])),
            ("add", ("add", b"a-", 0o40000, P["T0"])),
            ("add", ("add", b"a", 0o160000, P["C0"])),
            ("add", ("add", b"a/b".replace(b"/", b"+"), 0o100644, P["B0"])),
            ("__delitem__", ("del", b"a")),
            ("__delitem__", ("del", b"a.b")),
            ("__delitem__", ("del", b"absent")),
        ]
        extra_obs = ("items", "check", "len()")
    elif kind == "commit":
        vals = {
            "tree": (P["T1"], P["T0"]),
            "parents": ((), (P["C2"], P["C3"], P["C1"])),
            "author": (b"Other <o@example.org>", b"\xff\xfe <>"),
            "committer": (b"Other <o@example.org>", b" <e@x>"),
            "message": (b"", b"changed\n", None),
            "commit_time": (0, 2**31),
            "commit_timezone": (19800, 0),
            "author_time": (1, 2**63 - 1),
            "author_timezone": (-12600, 50400),
            "encoding": (None, b"UTF-16"),
            "mergetag": ((), (P["MT_SSH"], P["MT_PGP"])),
            "gpgsig": (None, PGP_SIG),
        }
        for f, vs in vals.items():
            for v in vs:
                ops.append((f, ("set", f, v)))
        extra_obs = ("check", "copy")
    else:
        vals = {
            "object": ((b"blob", P["B1"]), (b"commit", P["C3"])),
            "name": (b"renamed", b"\xff name"),
            "tagger": (b"Other <o@example.org>", None),
            "tag_time": (0, 2**31),
            "tag_timezone": (19800, -3540),
            "message": (b"", b"changed\n", None),
            "signature": (None, SSH_SIG + b"\n"),
        }
        for f, vs in vals.items():
            for v in vs:
                ops.append((f, ("set", f, v)))
        extra_obs = ("check", "copy")
    for o in FINAL_OBS + extra_obs:
        ops.append((o, ("obs", o)))
    return ops


def h_fresh(kind, m):
    """A fresh dulwich object built from the model's field values."""
    O, FMT = _O()
    if kind == "blob":
        b = O.Blob()
        b.data = m
        return b
    if kind == "tree":
        t = O.Tree()
        for n in sorted(m):
            t[n] = m[n]
        return t
    if kind == "commit":
        c = O.Commit()
        for f in ("tree", "author", "author_time", "author_timezone", "committer", "commit_time", "commit_timezone",
                  "encoding", "gpgsig", "message"):
            setattr(c, f, m[f])
        c.parents = list(m["parents"])
        c.mergetag = [O.Tag.from_string(r) for r in m["mergetag"]]
        c._extra = [(k, v) for k, v in m["extra"]]
        return c
    t = O.Tag()
    t.object = (O.object_class(m["object"][0]), m["object"][1])
    for f in ("name", "tagger", "tag_time", "tag_timezone", "message", "signature"):
        setattr(t, f, m[f])
    return t


def h_observe(o, name):
    O, FMT = _O()
    if name == "id":
        return o.id
    if name == "raw":
        return o.as_raw_string()
    if name == "sha":
        return o.sha().hexdigest().encode()
    if name == "id256":
        return o.get_id(FMT["sha256"])
    if name == "len":
        return o.raw_length()
    if name == "check":
        try:
            o.check()
        except Exception as e:  # validity of odd field values is not this property
            return type(e).__name__
        return None
    if name == "copy":
        return o.copy().id
    if name == "items":
        return tuple(o.items())
    if name == "len()":
        return len(o)
    if name == "data":
        return o.data
    if name == "chunked":
        return list(o.chunked)
    if name == "splitlines":
        return o.splitlines()
    raise AssertionError(name)


def h_apply(kind, o, m, op):
    """Apply one setter to the live object and to the model; returns the new model."""
    O, FMT = _O()
    if kind == "blob":
        _, how, v = op
        if how == "data":
            o.data = v
            return v
        if how == "chunked":
            o.chunked = list(v)
            return b"".join(v)
        if how == "set_raw_string":
            o.set_raw_string(v)
            return v
        o.set_raw_chunks(list(v))
        return b"".join(v)
    if kind == "tree":
        m = dict(m)
        if op[0] == "setitem":
            o[op[1]] = (op[2], op[3])
            m[op[1]] = (op[2], op[3])
        elif op[0] == "add":
            o.add(op[1], op[2], op[3])
            m[op[1]] = (op[2], op[3])
        else:
            try:
                del o[op[1]]
                raised = False
            except KeyError:
                raised = True
            if raised != (op[1] not in m):
                raise _HistoryOpError("__delitem__", "KeyError %s" % ("unexpected" if raised else "missing"))
            m.pop(op[1], None)
        return m
    _, f, v = op
    m = dict(m)
    if f == "parents":
        o.parents = list(v)
        m[f] = tuple(v)
    elif f == "mergetag":
        o.mergetag = [O.Tag.from_string(r) for r in v]
        m[f] = tuple(v)
    elif f == "object":
        o.object = (O.object_class(v[0]), v[1])
        m[f] = tuple(v)
    else:
        setattr(o, f, v)
        m[f] = v
    return m


class _HistoryOpError(Exception):
    pass


_H_MEMO = {}


def h_expected(acc, kind, tag, m, obs):
    """Expected observer values = those of a FRESH object built from the same field values
    (memoised per model state); the fresh object is also held against the reference serialiser."""
    key = (kind, tag, repr(sorted(m.items()) if isinstance(m, dict) else m))
    e = _H_MEMO.get(key)
    if e is None:
        f = h_fresh(kind, m)
        raw = f.as_raw_string()
        e = {"raw": raw, "id": harness_id("sha1", kind, raw), "sha": harness_id("sha1", kind, raw),
             "id256": harness_id("sha256", kind, raw), "len": len(raw)}
        if f.id != e["id"]:
            raise HarnessError("fresh %s object's id is not the hash of its bytes (family A reports that)" % kind)
        L = h_logical(kind, m)
        want = ref.serialize(kind, L, "sha1")
        cls = ref.diff_class(kind, raw, want, "sha1")
        e["ref"] = want
        acc.count("H_distinct_states")
        if cls != "same":
            K = kind if kind != "tree" else "tree.%s" % tag
            acc.violation("%s:build:serialise-%s" % (K, cls), "fresh object from %r: got %r want %r" % (m, raw, want),
                          rp(case_object, "sha1", kind, L, tag, "H"))
        _H_MEMO[key] = e
    return e[obs]


def _h_start(kind, start, base):
    m = h_base(kind, base)
    if start == "fresh":
        return h_fresh(kind, m), m
    raw = ref.serialize(kind, h_logical(kind, m), "sha1")
    return d_parse(kind, raw, "sha1"), m


def _h_run(acc, kind, start, base, tag, seq):
    """Run one op sequence whose last element is a final observer; returns None or
    (key-suffix, summary)."""
    o, m = _h_start(kind, start, base)
    last_set = "nothing"
    time_forgotten = False
    for label, op in seq[:-1]:
        try:
            if op[0] == "obs":
                h_observe(o, op[1])
                if kind == "tag" and op[1] == "check" and m["tagger"] is None:
                    # check() re-parses the object's own bytes: a tag without tagger line has no time
                    # to read back, so tag_time/tag_timezone legitimately become None from here on
                    time_forgotten = True
            else:
                if time_forgotten and op[1] == "tagger" and op[2] is not None:
                    return "pruned"  # tagger with no time: outside the canonical grammar
                m = h_apply(kind, o, m, op)
                last_set = label
        except _HistoryOpError as e:
            return ("%s:%s" % (e.args[0], e.args[1].replace(" ", "-")), "op %r" % (op,))
        except Exception as e:
            return ("%s:raises-%s" % (label, type(e).__name__), "%r at op %r" % (e, op))
    obs = seq[-1][1][1]
    try:
        got = h_observe(o, obs)
    except Exception as e:
        return ("%s:raises-%s-after-%s" % (obs, type(e).__name__, last_set), repr(e))
    want = h_expected(acc, kind, tag, m, obs)
    if got != want:
        names = {"id": "id", "raw": "as_raw_string", "sha": "sha()", "id256": "get_id(SHA256)", "len": "raw_length"}
        return ("%s:stale-or-wrong-after-set-%s" % (names[obs], last_set),
                "after %r: %s = %r, a fresh object with the same fields gives %r" % ([o_[1] for o_ in seq[:-1]], names[obs], got, want))
    return None


def case_history(acc: Acc, kind, start, base, tag, seq):
    """seq: list of [label, op] (JSON-able)."""
    seq = [(l, tuple(op)) for l, op in seq]
    K = kind.capitalize() if kind != "tree" else "Tree.%s" % tag
    with impl(tag):
        r = _h_run(acc, kind, start, base, tag, seq)
    acc.count("H_histories")
    acc.count("evaluations")
    if r == "pruned":
        acc.outcome("H:tag:pruned(tagger-set-after-check-forgot-the-unserialised-time)")
    elif r:
        acc.violation("history:%s:%s" % (K, r[0]), "%s/%s start, %s" % (start, base, r[1]),
                      rp(case_history, kind, start, base, tag, [[l, list(op)] for l, op in seq]))


def history_sequences(kind, depth, prefix):
    """All op sequences of total length <= depth that start with `prefix` (a tuple of ops) and end
    with a final observer."""
    ops = h_ops(kind)
    finals = [x for x in ops if x[1][0] == "obs" and x[1][1] in FINAL_OBS]
    n0 = len(prefix)
    for n in range(max(n0, 0), depth):
        for mid in itertools.product(ops, repeat=n - n0):
            for f in finals:
                yield tuple(prefix) + mid + (f,)


# --------------------------------------------------------------------------- C git in batch mode

_FSCK_RE = re.compile(rb"^(error|warning) in (\w+) ([0-9a-f]+): (\w+):")
_FSCK_IGNORE = (b"notice: HEAD points to an unborn branch", b"notice: No default references", b"Checking ")
# INFO-level fsck messages (printed as warnings, never fatal, even with --strict) that canonical objects may draw
ALLOWED_INFO = {b"badFilemode", b"missingTaggerEntry", b"badTagName"}


def g_init(algo):
    d = fresh_dir("g")
    git(["init", "-q", "--bare"] + (["--object-format=sha256"] if algo == "sha256" else []) + [d])
    os.mkdir(os.path.join(d, "in"))
    return d


_fileno = [0]


def g_hash_objects(repo, kind, datas):
    """git hash-object -w -t kind --stdin-paths over one file per object -> ids"""
    if not datas:
        return []
    paths = []
    for data in datas:
        _fileno[0] += 1
        p = os.path.join(repo, "in", "%d" % _fileno[0])
        with open(p, "wb") as f:
            f.write(data)
        paths.append(p)
    out = git(["hash-object", "-w", "-t", kind, "--stdin-paths"], cwd=repo, input=("\n".join(paths) + "\n").encode()).stdout
    ids = out.split()
    for p in paths:
        os.unlink(p)
    if len(ids) != len(datas):
        raise HarnessError("hash-object answered %d ids for %d inputs" % (len(ids), len(datas)))
    return ids


def g_cat_batch(repo, ids):
    """git cat-file --batch -> [(type, content) | None]"""
    if not ids:
        return []
    out = git(["cat-file", "--batch"], cwd=repo, input=b"".join(i + b"\n" for i in ids), check=False).stdout
    res = []
    pos = 0
    for i in ids:
        eol = out.find(b"\n", pos)
        if eol < 0:
            res.append(None)
            continue
        head = out[pos:eol].split(b" ")
        pos = eol + 1
        if len(head) != 3 or head[0] != i:
            res.append(None)  # "<id> missing" or garbage
            continue
        n = int(head[2])
        res.append((head[1], out[pos : pos + n]))
        pos += n + 1
    return res


def g_mktree_batch(repo, trees):
    """git mktree -z --batch: git sorts and serialises the entries itself -> ids"""
    if not trees:
        return []
    inp = []
    for L in trees:
        for n, m, i in L:
            t = b"tree" if m == 0o40000 else b"commit" if m == 0o160000 else b"blob"
            inp.append(b"%o %s %s\t%s\0" % (m, t, i, n))
        inp.append(b"\0")
    out = git(["mktree", "-z", "--batch"], cwd=repo, input=b"".join(inp)).stdout.split()
    if len(out) != len(trees):
        raise HarnessError("mktree answered %d ids for %d trees" % (len(out), len(trees)))
    return out


def g_fsck(repo):
    p = git(["fsck", "--strict", "--no-dangling", "--no-progress"], cwd=repo, check=False)
    found, other = [], []
    for line in (p.stdout + p.stderr).splitlines():
        m = _FSCK_RE.match(line)
        if m:
            found.append((m.group(1), m.group(2), m.group(3), m.group(4)))
        elif line and not line.startswith(_FSCK_IGNORE):
            other.append(line)
    return found, other


def is_clean(kind, L):
    """True when C git must accept the object without any error (fsck --strict).  The quantifier
    also names negative/huge times and odd identities git's fsck refuses; for those only names
    and bytes are compared."""
    def ident_ok(i):
        return i is None or (not i[0].startswith(b"<") and 0 <= i[1] < 2**64 - 1)

    if kind == "tree":
        return not any(n.lower() == b".gitmodules" and m not in (0o100644, 0o100755, 0o100664) for n, m, _ in L)
    if kind == "commit":
        return ident_ok(L["author"]) and ident_ok(L["committer"])
    if kind == "tag":
        return ident_ok(L["tagger"])
    return True


def write_loose(repo, hexid, legacy):
    d = os.path.join(repo, "objects", hexid[:2].decode())
    os.makedirs(d, exist_ok=True)
    with open(os.path.join(d, hexid[2:].decode()), "wb") as f:
        f.write(legacy)


def git_batch(acc: Acc, algo, items):
    """items: [(kind, L, R, loose)].  Repo G: git hashes/stores/fscks the reference bytes and
    builds the trees itself (validates the reference model; disagreement = HarnessError).
    Repo D: the loose objects dulwich wrote under the names dulwich computed; git must read them
    back byte-identical and fsck must accept them (violation otherwise)."""
    P = pool(algo)
    G = g_init(algo)
    try:
        for kind in ("blob", "tree", "commit", "tag"):
            pre = [x for x in P["prereq"] if x[0] == kind]
            ids = g_hash_objects(G, kind, [x[1] for x in pre])
            if ids != [x[2] for x in pre]:
                raise HarnessError("ORACLE-DISAGREEMENT: prerequisite %s ids: git %r, reference %r" % (kind, ids, [x[2] for x in pre]))
        by_id = {}
        for kind in KINDS:
            sub = [it for it in items if it[0] == kind]
            ids = g_hash_objects(G, kind, [it[2] for it in sub])
            for it, gid in zip(sub, ids):
                rid = ref.object_id(algo, kind.encode(), it[2])
                if gid != rid:
                    raise HarnessError("ORACLE-DISAGREEMENT: git hash-object %s vs reference %s for %s %r" % (gid, rid, kind, it[2]))
                by_id[rid] = it
                acc.count("git_hash_object_agreements")
        for it in items:
            # git mktag: git's own strict acceptance test for tags (no batch mode: one process per tag)
            if it[0] != "tag":
                continue
            p = git(["mktag"], cwd=G, input=it[2], check=False)
            must = it[1]["tagger"] is not None and is_clean("tag", it[1]) and it[1]["name"] in (b"v1.0", b"a/b", b"\xc3\xa9")
            if p.returncode == 0:
                if p.stdout.strip() != ref.object_id(algo, b"tag", it[2]):
                    raise HarnessError("ORACLE-DISAGREEMENT: git mktag names %r %s" % (it[2], p.stdout))
                acc.count("git_mktag_accepts")
            else:
                m = re.search(rb"does not pass fsck: (\w+):", p.stderr)
                acc.outcome("git:mktag:refuses:%s" % (m.group(1).decode() if m else "other"))
                if must:
                    raise HarnessError("ORACLE-DISAGREEMENT: git mktag refuses a canonical tag %r: %r" % (it[2], p.stderr))
        trees = [it for it in items if it[0] == "tree"]
        for it, gid in zip(trees, g_mktree_batch(G, [it[1] for it in trees])):
            if gid != ref.object_id(algo, b"tree", it[2]):
                got = g_cat_batch(G, [gid])[0]
                raise HarnessError("ORACLE-DISAGREEMENT: git mktree builds %r from %r, the reference serialiser %r" % (got, it[1], it[2]))
            acc.count("git_mktree_agreements")
        ids = sorted(by_id)
        for i, got in zip(ids, g_cat_batch(G, ids)):
            it = by_id[i]
            if got != (it[0].encode(), it[2]):
                raise HarnessError("ORACLE-DISAGREEMENT: git cat-file gives %r for %s %r" % (got, it[0], it[2]))
        found, other = g_fsck(G)
        if other:
            raise HarnessError("ORACLE-DISAGREEMENT: git fsck on reference-built objects prints %r" % (other[:5],))
        for sev, typ, i, msg in found:
            it = by_id.get(i)
            if msg in (b"gitmodulesBlob", b"gitmodulesMissing") and any(not is_clean(x[0], x[1]) for x in items):
                # reported against the object a non-blob .gitmodules entry (flagged unclean) points at
                acc.outcome("git:fsck:%s:on-target-of-unclean-entry" % msg.decode())
                continue
            if it is None:
                raise HarnessError("fsck complains about a prerequisite object: %r" % ((sev, typ, i, msg),))
            acc.outcome("git:fsck:%s:%s:%s" % (sev.decode(), typ.decode(), msg.decode()))
            if is_clean(it[0], it[1]) and not (sev == b"warning" and msg in ALLOWED_INFO):
                raise HarnessError("ORACLE-DISAGREEMENT: git fsck --strict rejects a %s the check calls canonical: %s %r" % (it[0], msg, it[2]))
        acc.count("git_fsck_clean_objects", sum(1 for it in items if is_clean(it[0], it[1])))
    finally:
        rmtree(G)
    # ---- dulwich-written loose objects
    D = g_init(algo)
    try:
        for kind, data, rid in P["prereq"]:
            o = d_parse(kind, data, algo)
            write_loose(D, rid, o.as_legacy_object())
        named = {}
        for it in items:
            if it[3] is None:
                continue
            named[it[3][0]] = it
            write_loose(D, it[3][0], it[3][1])
        ids = sorted(named)
        suspects = {}
        for i, got in zip(ids, g_cat_batch(D, ids)):
            it = named[i]
            if got is None:
                suspects[i] = "unreadable-or-misnamed"
            elif got[0] != it[0].encode():
                suspects[i] = "type-differs"
            elif got[1] != it[3][2]:
                suspects[i] = "content-differs"
            else:
                acc.count("git_reads_dulwich_loose_object")
        found, other = g_fsck(D)
        unclean = any(not is_clean(x[0], x[1]) for x in items)
        for sev, typ, i, msg in found:
            it = named.get(i)
            if unclean and msg in (b"gitmodulesBlob", b"gitmodulesMissing"):
                continue  # blames the target of a non-blob .gitmodules entry (an object flagged unclean)
            if it is not None and is_clean(it[0], it[1]) and it[2] == it[3][2] and not (sev == b"warning" and msg in ALLOWED_INFO):
                suspects.setdefault(i, "fsck-" + msg.decode())
        for line in other:
            m = re.search(rb"[0-9a-f]{40,64}", line)
            if m and m.group(0) in named:
                suspects.setdefault(m.group(0), "fsck-" + line.split(b":")[0].decode("ascii", "replace").replace(" ", "-"))
            elif not m:
                suspects.setdefault(ids[0] if ids else b"", "fsck-output")
        for i in sorted(suspects):
            it = named.get(i)
            if it is not None:
                case_loose(acc, algo, it[0], it[1])
    finally:
        rmtree(D)


def case_loose(acc: Acc, algo, kind, L):
    """One object: dulwich writes the loose file under the name it computed; C git reads it."""
    O, FMT = _O()
    if kind in ("commit", "tag"):
        L = dict(L)
    elif kind == "tree":
        L = tuple(tuple(e) for e in L)
    me = rp(case_loose, algo, kind, L)
    P = pool(algo)
    F = d_build(kind, L, algo)
    name, legacy, raw = F.get_id(FMT[algo]), F.as_legacy_object(), F.as_raw_string()
    D = g_init(algo)
    try:
        for k, data, rid in P["prereq"]:
            write_loose(D, rid, d_parse(k, data, algo).as_legacy_object())
        write_loose(D, name, legacy)
        got = g_cat_batch(D, [name])[0]
        why = None
        if got is None:
            why = "unreadable-or-misnamed"
        elif got != (kind.encode(), raw):
            why = "type-or-content-differs"
        else:
            found, other = g_fsck(D)
            bad = [m.decode() for s, t, i, m in found if i == name and not (s == b"warning" and m in ALLOWED_INFO)]
            if bad and is_clean(kind, L) and raw == ref.serialize(kind, L, algo):
                why = "fsck-" + bad[0]
            elif other:
                why = "fsck-" + other[0].split(b":")[0].decode("ascii", "replace").replace(" ", "-")
        acc.count("loose_individual")
        if why:
            acc.violation("git:dulwich-loose-object:%s:%s" % (kind, why), "%s %r stored as %s: git says %r" % (kind, raw[:200], name, got and got[0]), me)
    finally:
        rmtree(D)


# --------------------------------------------------------------------------- family A: the enumerated grammar

TREE_NAMES = [b"a", b"a.b", b"a-", b"a0", b"a b", b"ab", b"\xc3\xa9", b"\xff", b".gitmodules"]
TREE_MODES = [0o100644, 0o100755, 0o120000, 0o40000, 0o160000, 0o100664]
TREE_SPECIAL_NAMES = [b"a\nb", b'"q"', b"a\\b", b"\x01", b"a\tb", b" ", b"n" * 300, b"A", b".GITMODULES", b"a.", b"a\x7f"]


def entry_id(algo, mode, k):
    P = pool(algo)
    if mode == 0o40000:
        return (P["T0"], P["T1"])[k % 2]
    if mode == 0o160000:
        return (P["C0"], P["C1"])[k % 2]
    return (P["B0"], P["B1"])[k % 2]


def gen_trees(algo, maxn):
    for n in range(0, maxn + 1):
        for names in itertools.combinations(TREE_NAMES, n):
            for modes in itertools.product(TREE_MODES, repeat=n):
                yield tuple((nm, mo, entry_id(algo, mo, k)) for k, (nm, mo) in enumerate(zip(names, modes)))
    for sp in TREE_SPECIAL_NAMES:
        for mo in (0o100644, 0o40000):
            yield ((sp, mo, entry_id(algo, mo, 0)),)
            yield ((b"a", 0o40000, entry_id(algo, 0o40000, 1)), (sp, mo, entry_id(algo, mo, 0)))


IDENTS = [
    b"A U Thor <author@example.com>",
    b" <e@x>",                     # empty name
    b" <>",                        # empty name and email
    b"<>",                         # '<>' only (git's fsck refuses it; names and bytes still compared)
    b"N\xff\xfe <n@x>",            # not UTF-8
    b"Trail  <t@x>",               # name with a trailing space
    b"Dr. O'Neil, Jr. <o'neil@x>",
    b"A <a b@c>",                  # blank inside the address
    b"\xc3\x89ric <e@x>",
]
TIMES = [0, 1, -1, 2**31 - 1, 2**31, 2**32, 2**63 - 1, 1234567890]
ZONES = [b"+0000", b"-0000", b"+0530", b"-0330", b"+1400", b"-1200", b"+0059", b"-0059", b"+0100", b"-0700", b"+1245", b"+2359"]
EXTRAS = [(b"foo", b"bar"), (b"HG:rename-source", b"hg"), (b"multi", b"l1\nl2\nl3"), (b"blank", b"l1\n\nl3"), (b"trail", b"v\n")]
COMMIT_MESSAGES = [None, b"", b"m", b"m\n", b"\n\nm", b"subject\n\nbody \xff\n"]
AU = (b"A U Thor <author@example.com>", 1112911993, b"-0700")
CO = (b"C O Mitter <committer@example.com>", 1112912053, b"+0200")


def _extra_lists(maxn):
    yield ()
    for n in range(1, maxn + 1):
        yield from itertools.permutations(EXTRAS, n)


def gen_commits(algo, quick):
    P = pool(algo)
    seen = set()

    def out(c):
        k = ref.serialize_commit(c)
        if k not in seen:
            seen.add(k)
            return True
        return False

    base = dict(tree=P["T0"], parents=(P["C0"],), author=AU, committer=CO, encoding=None, mergetags=(), extra=(), gpgsig=None,
                message=b"subject\n\nbody\n")
    par = [(), (P["C0"],), (P["C1"], P["C2"]), (P["C3"], P["C1"], P["C2"])]
    mts = [(), (P["MT_PGP"],), (P["MT_PGP"], P["MT_SSH"])]
    # header set x message (x parents in the thorough tier)
    for enc in (None, b"ISO-8859-1"):
        for mt in mts:
            for ex in _extra_lists(2 if quick else 3):
                for sig in (None, PGP_SIG, SSH_SIG):
                    for msg in COMMIT_MESSAGES:
                        for pa in (par[1:2] if quick or len(ex) > 2 else par):
                            c = _with(base, encoding=enc, mergetags=mt, extra=tuple(ex), gpgsig=sig, message=msg, parents=pa)
                            if out(c):
                                yield c
    # parents x mergetag
    mts_tail = mts + [(P["MT_EMPTYMSG"],), (P["MT_BLANKEND"],), (P["MT_SIGBLANK"],), (P["MT_BLANKEND"], P["MT_EMPTYMSG"])]
    for pa in par:
        for mt in mts_tail:
            for msg in (b"m\n", None):
                c = _with(base, parents=pa, mergetags=mt, message=msg)
                if out(c):
                    yield c
    # identities x times x zones (author); one factor at a time (committer); zone pairs
    for who in IDENTS:
        for t in TIMES:
            for z in ZONES:
                c = _with(base, author=(who, t, z))
                if out(c):
                    yield c
    for who in IDENTS:
        c = _with(base, committer=(who, CO[1], CO[2]))
        if out(c):
            yield c
    for t in TIMES:
        c = _with(base, committer=(CO[0], t, CO[2]))
        if out(c):
            yield c
    for za in ZONES:
        for zc in ZONES:
            c = _with(base, author=(AU[0], AU[1], za), committer=(CO[0], CO[1], zc))
            if out(c):
                yield c
    for enc in (b"UTF-8", b"latin-1", b"x"):
        c = _with(base, encoding=enc)
        if out(c):
            yield c


TAG_NAMES = [b"v1.0", b"with space", b"\xff\xfe", b"a/b", b"-dash", b"\xc3\xa9"]
TAG_MESSAGES = [None, b"", b"m\n", b"m", b"line1\n\nline3\n", b"\nleading blank\n"]


def gen_tags(algo, quick):
    P = pool(algo)
    seen = set()
    targets = [(b"commit", P["C0"]), (b"tree", P["T0"]), (b"blob", P["B0"]), (b"tag", P["G0"])]
    tg = (b"T Agger <tagger@example.com>", 1200000000, b"+0100")
    for ty, oid in targets:
        for tagger in (None, tg):
            for sig in (None, PGP_SIG + b"\n", SSH_SIG + b"\n"):
                for msg in TAG_MESSAGES:
                    if sig is not None and (msg is None or (msg and not msg.endswith(b"\n"))):
                        continue  # a signature starts at the beginning of a line of an existing body
                    for name in TAG_NAMES:
                        t = ref.tag(oid, ty, name, tagger, msg, sig)
                        k = ref.serialize_tag(t)
                        if k not in seen:
                            seen.add(k)
                            yield t
    for who in IDENTS:
        for t_ in TIMES:
            for z in ZONES:
                t = ref.tag(P["C0"], b"commit", b"v1.0", (who, t_, z), b"m\n", None)
                k = ref.serialize_tag(t)
                if k not in seen:
                    seen.add(k)
                    yield t


def gen_blobs(quick):
    small, mid = blob_contents(quick)
    for c in small + mid:
        yield c
    for n in (4095, 4096, 4097, 65535, 65536, 65537):
        yield bytes((i * 13 + (i >> 7)) & 0xFF for i in range(n))
    yield b"blob 3\0abc"  # content that looks like an object header
    yield b"tree " + b"0" * 40 + b"\n"


# --------------------------------------------------------------------------- task plumbing


def _seeded(items, seed):
    items = list(items)
    if seed:
        import random

        random.Random(seed).shuffle(items)
    return items


def work(task):
    kind = task[0]
    acc = Acc()
    if kind == "objects":
        _, algo, tag, fam, items, seed = task
        batch = []
        for k, L in _seeded(items, seed):
            R, loose = case_object(acc, algo, k, L, tag, fam)
            batch.append((k, L, R, loose))
        if tag == "rust":
            git_batch(acc, algo, batch)
        acc.sample({"family": fam, "algo": algo, "first": repr(items[0])[:300], "last": repr(items[-1])[:300], "n": len(items)}, cap=1)
    elif kind == "blobchunks":
        for ch in _seeded(task[1], task[2]):
            case_blob_chunks(acc, ch)
    elif kind == "history":
        _, k, start, base, tag, depth, prefixes, seed = task
        K = k.capitalize() if k != "tree" else "Tree.%s" % tag
        _H_MEMO.clear()  # per task, so that every counter is a function of the task alone
        with impl(tag):
            for prefix in _seeded(prefixes, seed):
                for seq in history_sequences(k, depth, prefix):
                    r = _h_run(acc, k, start, base, tag, seq)
                    acc.count("H_histories")
                    acc.count("H_histories_%s" % k)
                    acc.count("evaluations")
                    nset = sum(1 for _, op in seq if op[0] != "obs")
                    acc.outcome("H:%s:setters=%d:observers-before-final=%d" % (k, nset, len(seq) - 1 - nset))
                    if r == "pruned":
                        acc.outcome("H:tag:pruned(tagger-set-after-check-forgot-the-unserialised-time)")
                    elif r:
                        acc.violation("history:%s:%s" % (K, r[0]), "%s/%s start, %s" % (start, base, r[1]),
                                      rp(case_history, k, start, base, tag, [[l, list(op)] for l, op in seq]))
    elif kind == "gitbuilt":
        git_built(acc, task[1], task[2])
    elif kind == "store":
        store_batch(acc, task[1], task[2])
    elif kind == "info":
        info_cases(acc, task[1])
    else:
        raise AssertionError(kind)
    return acc


# --------------------------------------------------------------------------- family G: objects C git builds from field values


def _stubs():
    d = fresh_dir("stub")
    for name, sig in (("pgpsig", PGP_SIG), ("sshsig", SSH_SIG)):
        with open(os.path.join(d, name), "wb") as f:
            f.write(sig + b"\n")
    gpg = os.path.join(d, "gpg")
    with open(gpg, "w") as f:
        f.write('#!/bin/sh\nfor a; do case "$a" in --verify) exit 1;; esac; done\ncat >/dev/null\n'
                'printf "[GNUPG:] SIG_CREATED D 1 8 00 1 0\\n" >&2\ncat %s/pgpsig\n' % d)
    ssh = os.path.join(d, "ssh-keygen")
    with open(ssh, "w") as f:
        f.write('#!/bin/sh\ncase "$2" in sign) ;; *) exit 1;; esac\nfor a; do last="$a"; done\ncat %s/sshsig > "$last.sig"\n' % d)
    os.chmod(gpg, 0o755)
    os.chmod(ssh, 0o755)
    return d, ["-c", "gpg.program=" + gpg, "-c", "user.signingkey=K"], \
        ["-c", "gpg.format=ssh", "-c", "gpg.ssh.program=" + ssh, "-c", "user.signingkey=key::ssh-ed25519 AAAA"]


def _split_ident(who):
    name, _, rest = who.partition(b" <")
    return name, rest[:-1]


def _cli_ident_ok(ident):
    """Identities git's own ident code passes through unchanged, dates git can be told."""
    name, mail = _split_ident(ident[0])
    return (name.strip(b" .,:;<>\"'\\") == name and name != b"" and mail.strip() == mail and b" " not in mail and mail != b""
            and 0 <= ident[1] < 2**63 and ident[2] != b"-0000")


def gen_cli_commits(algo, quick):
    P = pool(algo)
    base = dict(tree=P["T0"], parents=(), author=AU, committer=CO, encoding=None, mergetags=(), extra=(), gpgsig=None, message=b"m\n")
    par = [(), (P["C0"],), (P["C1"], P["C2"]), (P["C3"], P["C1"], P["C2"])]
    out = []
    for pa in par:
        for msg in COMMIT_MESSAGES[1:]:
            for sig in (None, PGP_SIG, SSH_SIG):
                for enc in (None, b"ISO-8859-1"):
                    if quick and sig and enc and len(pa) > 1:
                        continue
                    out.append(_with(base, parents=pa, message=msg, gpgsig=sig, encoding=enc, tree=P["T1"] if pa else P["T0"]))
    for who in IDENTS:
        for z in ZONES[:7] if quick else ZONES:
            for t in (TIMES[:5] if quick else TIMES):
                i = (who, t, z)
                if _cli_ident_ok(i):
                    out.append(_with(base, author=i))
                    out.append(_with(base, committer=i, gpgsig=PGP_SIG if t == 0 else None))
    # without an encoding header git commit-tree rewrites bytes that are not UTF-8 (as if latin-1):
    # such field values can only be handed to git together with an encoding
    def utf8(b):
        try:
            b.decode("utf-8")
            return True
        except UnicodeDecodeError:
            return False

    for c in out:
        if c["encoding"] is None and not (utf8(c["message"]) and utf8(c["author"][0]) and utf8(c["committer"][0])):
            c["encoding"] = b"ISO-8859-1"
    return out


def gen_cli_tags(algo, quick):
    P = pool(algo)
    tg = (b"T Agger <tagger@example.com>", 1200000000, b"+0100")
    out = []
    for ty, oid in [(b"commit", P["C0"]), (b"tree", P["T0"]), (b"blob", P["B0"]), (b"tag", P["G0"])]:
        for msg in TAG_MESSAGES[1:]:
            for sig in (None, PGP_SIG + b"\n", SSH_SIG + b"\n"):
                if sig is not None and msg and not msg.endswith(b"\n"):
                    continue
                out.append(ref.tag(oid, ty, b"v1.0", tg, msg, sig))
    for name in (b"a/b", b"\xc3\xa9", b"\xff\xfe"):
        out.append(ref.tag(P["C0"], b"commit", name, tg, b"m\n", None))
    for who in IDENTS:
        for z in ZONES:
            i = (who, 1234567890, z)
            if _cli_ident_ok(i):
                out.append(ref.tag(P["C0"], b"commit", b"v1.0", i, b"m\n", None))
    return out


def git_built(acc: Acc, algo, quick):
    P = pool(algo)
    G = g_init(algo)
    d, pgp_cfg, ssh_cfg = _stubs()
    msgfile = os.path.join(d, "msg")

    def ident_env(prefix, ident):
        name, mail = _split_ident(ident[0])
        return {"GIT_%s_NAME" % prefix: name, "GIT_%s_EMAIL" % prefix: mail, "GIT_%s_DATE" % prefix: b"@%d %s" % (ident[1], ident[2])}

    def signer(sig):
        return [] if sig is None else ssh_cfg if b"SSH" in sig else pgp_cfg

    try:
        for kind in KINDS:
            g_hash_objects(G, kind, [x[1] for x in P["prereq"] if x[0] == kind])
        # ---- git commit-tree
        for L in gen_cli_commits(algo, quick):
            with open(msgfile, "wb") as f:
                f.write(L["message"])
            env = ident_env("AUTHOR", L["author"])
            env.update(ident_env("COMMITTER", L["committer"]))
            args = signer(L["gpgsig"]) + (["-c", b"i18n.commitEncoding=" + L["encoding"]] if L["encoding"] else [])
            args += ["commit-tree"] + (["-S"] if L["gpgsig"] else []) + [L["tree"]]
            for p in L["parents"]:
                args += ["-p", p]
            cid = git(args + ["-F", msgfile], cwd=G, env=env).stdout.strip()
            got = g_cat_batch(G, [cid])[0]
            if algo == "sha256" and L["gpgsig"] is not None:
                # in a sha256 repository git names the signature header gpgsig-sha256 (an unknown header to
                # everyone else: it travels with the other extra headers)
                L = _with(L, extra=tuple(L["extra"]) + ((b"gpgsig-sha256", L["gpgsig"]),), gpgsig=None)
                acc.outcome("G:commit-tree:gpgsig-sha256-header")
            want = ref.serialize_commit(L)
            if got != (b"commit", want):
                raise HarnessError("ORACLE-DISAGREEMENT: git commit-tree builds %r, the reference serialiser %r" % (got, want))
            acc.count("git_commit_tree_agreements")
            case_object(acc, algo, "commit", L, "rust", "G")
        # ---- git tag -a / -s
        n = 0
        for L in gen_cli_tags(algo, quick):
            n += 1
            with open(msgfile, "wb") as f:
                f.write(L["message"])
            refname = b"t%d/" % n + L["name"]
            args = signer(L["signature"]) + ["tag", "-s" if L["signature"] else "-a", "--cleanup=verbatim", "-F", msgfile, refname, L["object"]]
            git(args, cwd=G, env=ident_env("COMMITTER", L["tagger"]))
            tid = git(["rev-parse", b"refs/tags/" + refname], cwd=G).stdout.strip()
            got = g_cat_batch(G, [tid])[0]
            # git names the tag after the ref we had to make unique; the field under test is what is in the object
            L2 = _with(L, name=refname)
            want = ref.serialize_tag(L2)
            if got != (b"tag", want):
                raise HarnessError("ORACLE-DISAGREEMENT: git tag builds %r, the reference serialiser %r" % (got, want))
            acc.count("git_tag_agreements")
            case_object(acc, algo, "tag", L2, "rust", "G")
            case_object(acc, algo, "tag", L, "rust", "G")
    finally:
        rmtree(G)
    # ---- git merge of signed tags -> mergetag headers (needs a work tree)
    W = fresh_dir("w")
    try:
        git(["init", "-q"] + (["--object-format=sha256"] if algo == "sha256" else []) + [W])
        run = lambda a, **kw: git(a, cwd=W, **kw).stdout.strip()
        T = run(["hash-object", "-w", "-t", "tree", "/dev/null"])
        c1 = run(["commit-tree", T, "-m", "one"])
        run(["update-ref", "HEAD", c1])
        run(["reset", "-q", "--hard"])
        sides = []
        for i, cfg in enumerate((pgp_cfg, ssh_cfg)):
            c = run(["commit-tree", T, "-p", c1, "-m", "side %d" % i])
            run(cfg + ["tag", "-s", "-m", "signed %d\n\nbody" % i, "sig%d" % i, c])
            sides.append("sig%d" % i)
        merges = []
        for names in ([sides[0]], [sides[1]], sides):
            run(["reset", "-q", "--hard", c1])
            run(pgp_cfg + ["merge", "-q", "--no-ff", "--no-edit"] + names)
            merges.append((names, run(["rev-parse", "HEAD"])))
        for names, mid in merges:
            kind, raw = g_cat_batch(W, [mid])[0]
            L = ref.parse_commit(raw)
            tags = tuple(g_cat_batch(W, [run(["rev-parse", "refs/tags/" + n_])])[0][1] for n_ in names)
            if ref.serialize_commit(L) != raw or L["mergetags"] != tags or len(L["parents"]) != 1 + len(names):
                raise HarnessError("ORACLE-DISAGREEMENT: reference model on git's merge commit %r (tags %r)" % (raw, tags))
            acc.count("git_merge_mergetag_agreements")
            acc.outcome("G:git-merge:mergetags=%d" % len(tags))
            case_object(acc, algo, "commit", L, "rust", "G")
    finally:
        rmtree(W)
        rmtree(d)


# --------------------------------------------------------------------------- family S: names inside object stores


def _store_add(repo, path, algo, kind, L):
    """dulwich adds a fresh object to a (git-initialised) repository of the given object format
    -> (name the harness computes from dulwich's bytes, bytes, reason or None)"""
    F = d_build(kind, L, algo)
    raw = F.as_raw_string()
    name = harness_id(algo, kind, raw)
    store = repo.object_store
    store.add_object(F)
    why = None
    if not os.path.exists(os.path.join(path, "objects", name[:2].decode(), name[2:].decode())):
        why = "stored-under-a-name-that-is-not-the-%s-of-its-content" % algo
    elif name not in store:
        why = "contains-denies-own-object"
    else:
        back = store[name]
        if back.type_name != kind.encode() or back.as_raw_string() != raw:
            why = "read-back-differs"
        elif back.id != name or back.get_id(repo.object_format) != name:
            why = "read-back-object-reports-another-name"
    return name, raw, why


def _store_open(algo):
    from dulwich.repo import Repo

    path = g_init(algo)
    repo = Repo(path)
    if repo.object_format.name != algo:
        raise HarnessError("dulwich opened a %s repository as %s" % (algo, repo.object_format.name))
    for k, data, rid in pool(algo)["prereq"]:
        repo.object_store.add_object(d_parse(k, data, algo))
    return path, repo


def case_store_one(acc: Acc, algo, kind, L):
    if kind in ("commit", "tag"):
        L = dict(L)
    elif kind == "tree":
        L = tuple(tuple(e) for e in L)
    me = rp(case_store_one, algo, kind, L)
    path, repo = _store_open(algo)
    try:
        name, raw, why = _store_add(repo, path, algo, kind, L)
        if why is None:
            got = g_cat_batch(path, [name])[0]
            if got != (kind.encode(), raw):
                why = "git-reads-something-else"
            elif is_clean(kind, L) and raw == ref.serialize(kind, L, algo):
                found, other = g_fsck(path)
                bad = [m.decode() for s_, t, i, m in found if i == name and not (s_ == b"warning" and m in ALLOWED_INFO)]
                if bad or other:
                    why = "git-fsck-" + (bad[0] if bad else "complains")
        acc.count("S_individual")
        if why:
            acc.violation("store:%s:add_object:%s" % (algo, why), "%s %r" % (kind, raw[:200]), me)
    finally:
        repo.close()
        rmtree(path)


def store_batch(acc: Acc, algo, items):
    path, repo = _store_open(algo)
    suspects = []
    try:
        names = {}
        for kind, L in items:
            acc.count("S_store_objects")
            acc.count("evaluations")
            name, raw, why = _store_add(repo, path, algo, kind, L)
            if why:
                suspects.append((kind, L))
            else:
                names[name] = (kind, L, raw)
        ids = sorted(names)
        for i, got in zip(ids, g_cat_batch(path, ids)):
            kind, L, raw = names[i]
            if got != (kind.encode(), raw):
                suspects.append((kind, L))
            else:
                acc.count("S_git_reads_store_object")
        found, other = g_fsck(path)
        unclean = any(not is_clean(k, L) for k, L in items)
        for s_, t, i, m in found:
            if i in names and not (s_ == b"warning" and m in ALLOWED_INFO) and not (unclean and m.startswith(b"gitmodules")):
                kind, L, raw = names[i]
                if is_clean(kind, L) and raw == ref.serialize(kind, L, algo):
                    suspects.append((kind, L))
        if other:
            raise HarnessError("git fsck on the dulwich-filled store prints %r" % (other[:3],))
        acc.outcome("S:%s:objects-added-and-read-by-git" % algo)
    finally:
        repo.close()
        rmtree(path)
    for kind, L in suspects:
        case_store_one(acc, algo, kind, L)


# --------------------------------------------------------------------------- informational (outside the statement)


def info_cases(acc: Acc, algo):
    """Well-formed but not in the layout C git writes; recorded as outcome classes only."""
    P = pool(algo)
    base = ref.commit(P["T0"], (P["C0"],), AU, CO, None, (), (), None, b"m\n")
    hdr = ref.header_block
    variants = {
        "extra-before-mergetag": [(b"foo", b"bar"), (b"mergetag", P["MT_PGP"][:-1])],
        "gpgsig-before-extra": [(b"gpgsig", PGP_SIG), (b"foo", b"bar")],
        "gpgsig-before-mergetag": [(b"gpgsig", PGP_SIG), (b"mergetag", P["MT_PGP"][:-1])],
        "extra-between-mergetags": [(b"mergetag", P["MT_PGP"][:-1]), (b"foo", b"bar"), (b"mergetag", P["MT_SSH"][:-1])],
    }
    for name, extra_headers in variants.items():
        raw = hdr(ref.commit_headers(base) + extra_headers) + b"\n" + base["message"]
        try:
            c = d_parse("commit", raw, algo)
            c.message = c.message
            acc.outcome("info:commit-header-order:%s:%s" % (name, "preserved" if c.as_raw_string() == raw else "reordered-on-rewrite"))
        except Exception as e:
            acc.outcome("info:commit-header-order:%s:raises-%s" % (name, type(e).__name__))
    for z in (b"+0060", b"+0099", b"-0075", b"+9959"):
        raw = ref.serialize_commit(_with(base, author=(AU[0], AU[1], b"+0000"))).replace(b"+0000\ncommitter", z + b"\ncommitter")
        try:
            c = d_parse("commit", raw, algo)
            c.message = c.message
            acc.outcome("info:timezone-minutes>=60:%s:%s" % (z.decode(), "preserved" if c.as_raw_string() == raw else "normalised-on-rewrite"))
        except Exception as e:
            acc.outcome("info:timezone-minutes>=60:%s:raises-%s" % (z.decode(), type(e).__name__))
    raw = ref.serialize_commit(base).replace(b"\n\nm\n", b"\nempty\n\nm\n")  # git writes a valueless header as "key LF"
    try:
        c = d_parse("commit", raw, algo)
        c.message = c.message
        acc.outcome("info:valueless-extra-header:%s" % ("preserved" if c.as_raw_string() == raw else "changed-on-rewrite"))
    except Exception as e:
        acc.outcome("info:valueless-extra-header:raises-%s" % type(e).__name__)


# --------------------------------------------------------------------------- run


def _chunks(seq, n):
    seq = list(seq)
    return [seq[i : i + n] for i in range(0, len(seq), n)]


def run(ctx):
    q = ctx.quick
    paths = common.preload_rust()
    O, FMT = _O()
    seed = ctx.seed
    tasks = []
    sizes = {}
    # ---- A
    for algo in ALGOS:
        trees = [("tree", t) for t in gen_trees(algo, 3 if q else 4)]
        commits = [("commit", c) for c in gen_commits(algo, q)]
        tags = [("tag", t) for t in gen_tags(algo, q)]
        blobs = [("blob", b) for b in gen_blobs(q)]
        sizes[algo] = {"trees": len(trees), "commits": len(commits), "tags": len(tags), "blobs": len(blobs)}
        for part in _chunks(trees, 700):
            tasks.append(("objects", algo, "rust", "A", part, seed))
            tasks.append(("objects", algo, "py", "A", part, seed))
        for part in _chunks(commits, 120):
            tasks.append(("objects", algo, "rust", "A", part, seed))
        for part in _chunks(tags, 250):
            tasks.append(("objects", algo, "rust", "A", part, seed))
        for part in _chunks(blobs, 60):
            tasks.append(("objects", algo, "rust", "A", part, seed))
    # ---- B
    small, mid = blob_contents(q)
    chs = []
    for c in small:
        chs += list(chunkings(c, True))
    for c in mid:
        chs += list(chunkings(c, len(c) <= 4))
    for n in (4095, 4096, 4097, 65535, 65536, 65537):
        chs += list(big_chunkings(n))
    for part in _chunks(chs, 400):
        tasks.append(("blobchunks", part, seed))
    # ---- H
    depth = {"blob": 5 if q else 6, "tree": 4 if q else 5, "commit": 4 if q else 5, "tag": 4 if q else 5}
    hist_n = 0
    for kind in KINDS:
        ops = h_ops(kind)
        for base in ("plain", "rich"):
            d = depth[kind] - (0 if base == "plain" or kind in ("blob", "tree") else 1)
            for start in ("fresh", "parsed"):
                for tag in ("rust", "py") if kind == "tree" else ("rust",):
                    # sequences of length 1 (a lone observer) + one task per group of first ops
                    tasks.append(("history", kind, start, base, tag, 1, [()], seed))
                    firsts = [(o,) for o in ops]
                    if d >= 5:
                        firsts = [(a, b) for a in ops for b in ops]
                        tasks.append(("history", kind, start, base, tag, 2, [(o,) for o in ops], seed))
                    for part in _chunks(firsts, max(1, len(firsts) // 24)):
                        tasks.append(("history", kind, start, base, tag, d, part, seed))
    # ---- G, S, informational
    for algo in ALGOS:
        tasks.append(("gitbuilt", algo, q))
        tasks.append(("info", algo))
        step = (40, 20, 10, 1) if q else (10, 5, 3, 1)
        sample = []
        for (kind, gen), st in zip((("tree", gen_trees(algo, 3)), ("commit", gen_commits(algo, True)), ("tag", gen_tags(algo, True)),
                                    ("blob", gen_blobs(True))), step):
            sample += [(kind, L) for L in list(gen)[::st]]
        sizes[algo]["store_sample"] = len(sample)
        for part in _chunks(sample, 400):
            tasks.append(("store", algo, part))

    order = {"gitbuilt": 0, "history": 1, "objects": 2, "store": 2, "blobchunks": 3, "info": 3}
    tasks.sort(key=lambda t: order[t[0]])  # long tasks first
    if seed:
        tasks = ctx.order(tasks)
    pmap_acc(work, tasks, ctx.acc, jobs=ctx.jobs)

    n = ctx.acc.n
    classes = ctx.acc.classes
    ctx.level = "exploration"
    ctx.coverage.update(
        evaluations=n.get("evaluations", 0),
        distinct_nontrivial=len([c for c in classes if not c.endswith(":same")]),
        rule=(
            "E4 bounded-exhaustive. A: every tree with <=%d entries over names %r x modes %s (+%d special names), "
            "commits = {encoding 0/1} x {0,1,2 mergetags} x {ordered lists of <=%d of 5 extra headers incl. multi-line, empty "
            "continuation line, trailing-LF value} x {no, PGP, SSH gpgsig} x 6 messages (missing, empty, no final LF, ...)%s "
            "+ parents 0..3 x mergetags + 9 identities x 8 times x 12 zones (author) + committer one factor at a time + 12x12 "
            "zone pairs; tags = 4 target types x tagger 0/1 x {no, PGP, SSH} signature x 6 messages x 6 names + 9x8x12 taggers; "
            "blobs = all strings <=3 over {00,0a,'a',ff} + sizes 4095-4097, 65535-65537; each for SHA-1 and SHA-256, each built, "
            "serialised, parsed, re-serialised after re-assigning every field and after changing every field once; trees under the "
            "Rust and the pure-Python parse_tree/sorted_tree_items.  B: every chunking (with and without an empty chunk) of every "
            "small blob content through 5 ways of handing chunks to a Blob.  H: every sequence of <=%d/%d/%d/%d (blob/tree/commit/"
            "tag) setter-or-observer calls followed by one of the observers id, as_raw_string, sha(), get_id(SHA256), raw_length, "
            "from a fresh and from a parsed start object, two base objects each; oracle = fresh object with the same field values.  "
            "S: every 40th/20th/10th (thorough 10th/5th/3rd) tree/commit/tag and every blob of A added with add_object() to a "
            "git-initialised sha1 and sha256 repository opened by dulwich: stored under, found by and read back under the hash "
            "of its bytes, readable by git cat-file/fsck.  "
            "G: commits/tags/merges C git builds itself from the same field values (commit-tree, tag -a/-s with stub signers, "
            "merge of signed tags).  distinct_nontrivial = observed structural / outcome classes other than plain agreement."
            % (3 if q else 4, [x.decode("latin1") for x in TREE_NAMES], ["%o" % m for m in TREE_MODES], len(TREE_SPECIAL_NAMES),
               2 if q else 3, "" if q else " x parents 0..3",
               depth["blob"] - 1, depth["tree"] - 1, depth["commit"] - 1, depth["tag"] - 1)
        ),
        exhaustive=True,
        bounds={"tree_entries": 3 if q else 4, "extra_headers": 2 if q else 3, "history_ops_before_final_observer": {k: v - 1 for k, v in depth.items()},
                "objects_per_algo": sizes, "blob_chunkings": len(chs)},
        rust_extension=paths["_objects"],
        outcome_classes=dict(sorted(classes.items())),
        traces_validated_against_impl=n.get("evaluations", 0),
    )
    ctx.assumptions += [
        "reference serialiser/parser engines/refmodels/gitobjects.py agrees with C git 2.39.5 on every enumerated object "
        "(hash-object ids, cat-file bytes, mktree/commit-tree/tag/merge built objects, fsck --strict); a disagreement is exit 2",
        "canonical header order = the one C git writes: tree, parent*, author, committer, encoding?, mergetag*, other*, gpgsig?",
        "extra headers and the -0000 flag have no public setter in dulwich: fresh objects get them through Commit._extra / "
        "_*_timezone_neg_utc like dulwich's own tests do",
        "negative times, 2^64-1 and identities without a name before '<' are refused by git fsck: for them only names and bytes "
        "are compared with git (hash-object/cat-file), not acceptance",
        "dulwich.objects.parse_tree/sorted_tree_items are the Rust functions rebuilt from the working tree; the pure-Python twins "
        "are exercised by rebinding the two module globals",
    ]


def replay(ctx, obj):
    import sys

    return replay_generic(sys.modules[__name__], ctx, obj)
