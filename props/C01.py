"""C01 — object names are content hashes; serialisation is lossless and git-identical.

Bounded-exhaustive enumeration (engine E4 + E3-style setter-history search) of

  A  objects from git's canonical grammar (blobs, trees, commits, tags; SHA-1 and SHA-256), each
     built from field values, serialised, parsed, re-serialised untouched and re-serialised after
     every single-field change;
  B  blobs under every chunking (Blob.chunked / from_raw_chunks);
  H  every sequence of <=k setter/observer calls on a live object (observers fill the caches a
     stale-cache bug needs) with the oracle "live object == fresh object built from the same
     field values";
  G  objects that C git itself builds from field values (mktree, commit-tree incl. signed
     commits through a stub gpg program, tag -a/-s, merge of signed tags -> mergetag).

Oracles: harness-computed hash of `type SP len NUL content`; the independent reference
serialiser/parser engines/refmodels/gitobjects.py; C git in batch mode (hash-object --stdin-paths,
cat-file --batch, mktree --batch, fsck --strict), which also keeps the reference model honest
(reference vs git disagreement = HarnessError, never a violation).
"""

from __future__ import annotations

import hashlib
import itertools
import os
import re
import zlib

from engines import common
from engines.common import Acc, HarnessError, fresh_dir, git, pmap_acc, replay_generic, rmtree, rp, split
from engines.enumerate import compositions, strings
from engines.refmodels import gitobjects as ref

KINDS = ("blob", "tree", "commit", "tag")
TYPE_NUM = {"commit": 1, "tree": 2, "blob": 3, "tag": 4}
ALGOS = ("sha1", "sha256")

_D = {}


def _O():
    """dulwich.objects bound to the Rust extension rebuilt from the working tree."""
    if not _D:
        paths = common.preload_rust()
        from dulwich import objects as O
        from dulwich.object_format import SHA1, SHA256

        ext = getattr(O.parse_tree, "__module__", None)
        if O.parse_tree is O._parse_tree_py or O.sorted_tree_items is O._sorted_tree_items_py:
            raise HarnessError("dulwich.objects did not bind the Rust parse_tree/sorted_tree_items (%r)" % (ext,))
        import dulwich._objects as ro

        if os.path.abspath(ro.__file__) != os.path.abspath(paths["_objects"]):
            raise HarnessError("dulwich._objects loaded from %s, not the rebuilt %s" % (ro.__file__, paths["_objects"]))
        _D.update(O=O, FMT={"sha1": SHA1, "sha256": SHA256}, rs=(O.parse_tree, O.sorted_tree_items),
                  py=(O._parse_tree_py, O._sorted_tree_items_py))
    return _D["O"], _D["FMT"]


class impl:
    """Bind dulwich.objects.parse_tree/sorted_tree_items to the Rust ('rust') or the pure-Python
    ('py') twin for the duration of a case (both are anchored by the property)."""

    def __init__(self, which):
        self.which = which

    def __enter__(self):
        O, _ = _O()
        self.prev = (O.parse_tree, O.sorted_tree_items)
        O.parse_tree, O.sorted_tree_items = _D["rs"] if self.which == "rust" else _D["py"]

    def __exit__(self, *a):
        O, _ = _O()
        O.parse_tree, O.sorted_tree_items = self.prev


def harness_id(algo, kind, content: bytes) -> bytes:
    """Oracle 1, computed here (not by the reference module, not by dulwich)."""
    h = hashlib.sha1() if algo == "sha1" else hashlib.sha256()
    h.update(kind.encode() + b" " + str(len(content)).encode() + b"\0" + content)
    return h.hexdigest().encode()


# --------------------------------------------------------------------------- id pool / prerequisites

A0 = (b"Base Author <base@example.com>", 1000000000, b"+0000")
PGP_SIG = (b"-----BEGIN PGP SIGNATURE-----\n\niQEzBAABCAAdFiEE\nq83vEjRWeJA=\n=AbCd\n-----END PGP SIGNATURE-----")
SSH_SIG = (b"-----BEGIN SSH SIGNATURE-----\nU1NIU0lHAAAAAQAAADMAAAALc3NoLWVkMjU1MTkAAAAg\nAAAAQHh4eHg=\n-----END SSH SIGNATURE-----")

_POOL = {}


def pool(algo):
    """Real objects the enumerated ones refer to (so that `git fsck` finds every link)."""
    if algo in _POOL:
        return _POOL[algo]
    P = {"prereq": []}

    def put(name, kind, L):
        data = ref.serialize(kind, L, algo)
        P[name] = ref.object_id(algo, kind.encode(), data)
        P["prereq"].append((kind, data, P[name]))
        return P[name]

    put("B0", "blob", b"")
    put("B1", "blob", b"x\n")
    put("T0", "tree", ())
    put("T1", "tree", ((b"f", 0o100644, P["B0"]),))
    put("C0", "commit", ref.commit(P["T0"], (), A0, A0, message=b"c0\n"))
    put("C1", "commit", ref.commit(P["T0"], (P["C0"],), A0, A0, message=b"c1\n"))
    put("C2", "commit", ref.commit(P["T1"], (P["C0"],), A0, A0, message=b"c2\n"))
    put("C3", "commit", ref.commit(P["T1"], (P["C1"], P["C2"]), A0, A0, message=b"c3\n"))
    put("G0", "tag", ref.tag(P["C0"], b"commit", b"g0", A0, b"g0\n"))
    # mergetag texts (signed tags of C2 / C1)
    P["MT_PGP"] = ref.serialize_tag(ref.tag(P["C2"], b"commit", b"signed-1", A0, b"release 1\n", PGP_SIG + b"\n"))
    P["MT_SSH"] = ref.serialize_tag(ref.tag(P["C1"], b"commit", b"signed-2", A0, b"release 2\n\ndetails\n", SSH_SIG + b"\n"))
    _POOL[algo] = P
    return P


def mode_id(algo, mode):
    P = pool(algo)
    if mode == 0o40000:
        return P["T0"]
    if mode == 0o160000:
        return P["C0"]
    return P["B0"]


# --------------------------------------------------------------------------- dulwich adapter


def _set_ident(o, prefix, time_attr, tz_attr, ident):
    who, when, tz = ident
    secs, neg = ref.tz_seconds(tz)
    setattr(o, prefix, who)
    setattr(o, time_attr, when)
    setattr(o, tz_attr, secs)
    if neg:
        # no public setter exists for the "-0000" flag; dulwich's own tests set it the same way
        setattr(o, "_" + tz_attr + "_neg_utc", True)


def d_build(kind, L, algo, variant=0):
    """A fresh dulwich object built from field values through the public setters."""
    O, FMT = _O()
    if kind == "blob":
        b = O.Blob()
        if variant == 0:
            b.data = L
        else:
            b.chunked = [L[: len(L) // 2], L[len(L) // 2 :]]
        return b
    if kind == "tree":
        t = O.Tree()
        t.object_format = FMT[algo]
        if variant == 0:
            for n, m, i in L:
                t.add(n, m, i)
        else:
            for n, m, i in reversed(list(L)):
                t[n] = (m, i)
        return t
    if kind == "commit":
        c = O.Commit()
        c.tree = L["tree"]
        c.parents = list(L["parents"])
        _set_ident(c, "author", "author_time", "author_timezone", L["author"])
        _set_ident(c, "committer", "commit_time", "commit_timezone", L["committer"])
        if L["encoding"] is not None:
            c.encoding = L["encoding"]
        if L["mergetags"]:
            c.mergetag = [O.Tag.from_string(r) for r in L["mergetags"]]
        if L["extra"]:
            c._extra = [(k, v) for k, v in L["extra"]]  # no public accessor exists for extra headers
        if L["gpgsig"] is not None:
            c.gpgsig = L["gpgsig"]
        c.message = L["message"]
        return c
    if kind == "tag":
        t = O.Tag()
        t.object = (O.object_class(L["type"]), L["object"])
        t.name = L["name"]
        if L["tagger"] is not None:
            _set_ident(t, "tagger", "tag_time", "tag_timezone", L["tagger"])
        t.message = L["message"]
        t.signature = L["signature"]
        return t
    raise AssertionError(kind)


def _ident_fields(prefix, time_attr, tz_attr, ident):
    if ident is None:
        return {prefix: None, time_attr: None, tz_attr: None, tz_attr + "_neg_utc": False}
    who, when, tz = ident
    secs, neg = ref.tz_seconds(tz)
    return {prefix: who, time_attr: when, tz_attr: secs, tz_attr + "_neg_utc": neg}


def d_expected(kind, L):
    """The dulwich field values that correspond to the logical value L."""
    if kind == "blob":
        return {"data": L}
    if kind == "tree":
        return {"entries": tuple(ref.sort_entries(L))}
    if kind == "commit":
        d = {"tree": L["tree"], "parents": tuple(L["parents"])}
        d.update(_ident_fields("author", "author_time", "author_timezone", L["author"]))
        d.update(_ident_fields("committer", "commit_time", "commit_timezone", L["committer"]))
        d.update(encoding=L["encoding"], mergetag=tuple(L["mergetags"]), extra=tuple(L["extra"]), gpgsig=L["gpgsig"],
                 message=L["message"])
        return d
    if kind == "tag":
        d = {"object": (L["type"], L["object"]), "name": L["name"]}
        d.update(_ident_fields("tagger", "tag_time", "tag_timezone", L["tagger"]))
        d.update(message=L["message"], signature=L["signature"])
        return d
    raise AssertionError(kind)


def d_observed(kind, o):
    if kind == "blob":
        return {"data": o.data}
    if kind == "tree":
        return {"entries": tuple((e.path, e.mode, e.sha) for e in o.items())}
    if kind == "commit":
        return {
            "tree": o.tree, "parents": tuple(o.parents),
            "author": o.author, "author_time": o.author_time, "author_timezone": o.author_timezone,
            "author_timezone_neg_utc": o._author_timezone_neg_utc,
            "committer": o.committer, "commit_time": o.commit_time, "commit_timezone": o.commit_timezone,
            "commit_timezone_neg_utc": o._commit_timezone_neg_utc,
            "encoding": o.encoding, "mergetag": tuple(t.as_raw_string() for t in o.mergetag),
            "extra": tuple((k, v) for k, v in o._extra), "gpgsig": o.gpgsig, "message": o.message,
        }
    if kind == "tag":
        cls, sha = o.object
        return {
            "object": (cls.type_name, sha), "name": o.name, "tagger": o.tagger, "tag_time": o.tag_time,
            "tag_timezone": o.tag_timezone, "tag_timezone_neg_utc": o._tag_timezone_neg_utc,
            "message": o.message, "signature": o.signature,
        }
    raise AssertionError(kind)


def d_parse(kind, data, algo):
    O, FMT = _O()
    return O.ShaFile.from_raw_string(TYPE_NUM[kind], data, object_format=FMT[algo])


def first_field_diff(exp, obs):
    for k in exp:
        if exp[k] != obs.get(k, "<absent>"):
            return k
    return None


def check_ids(acc, o, algo, kind, where, replay):
    """Oracle 1: every name the object reports is the hash of ITS OWN current bytes."""
    O, FMT = _O()
    data = o.as_raw_string()
    bad = []
    if o.id != harness_id("sha1", kind, data):
        bad.append("id")
    if o.sha().hexdigest().encode() != harness_id("sha1", kind, data):
        bad.append("sha()")
    if o.get_id(FMT[algo]) != harness_id(algo, kind, data):
        bad.append("get_id(%s)" % algo)
    if o.raw_length() != len(data):
        bad.append("raw_length")
    for b in bad:
        acc.violation("%s:%s:%s-is-not-hash-of-own-content" % (kind, where, b),
                      "%s %s: %s disagrees with hash(%r...)" % (kind, where, b, data[:60]), replay)
    return not bad


# --------------------------------------------------------------------------- single-field edits


def _other(cur, *cands):
    for c in cands:
        if c != cur:
            return c
    raise AssertionError


def _with(L, **kw):
    d = dict(L)
    d.update(kw)
    return d


def _tz_alt(ident):
    """(new offset in seconds, its canonical spelling): never 0 (a zero offset is ambiguous
    for an object that was spelled -0000)."""
    secs, _ = ref.tz_seconds(ident[2])
    new = _other(secs, 3600, -5400)
    return new, ref.tz_text(new)


def edits(kind, L, algo):
    """[(field-label, apply(obj), L2)] — every public setter once or twice with a value that
    differs from the current one; L2 is the logical value after the edit."""
    O, FMT = _O()
    P = pool(algo)
    out = []
    if kind == "blob":
        v = _other(L, b"changed\n", b"")
        out.append(("data", lambda o, v=v: setattr(o, "data", v), v))
        out.append(("chunked", lambda o: setattr(o, "chunked", [b"ch", b"", b"unk"]), b"chunk"))
        return out
    if kind == "tree":
        ents = list(L)
        names = [e[0] for e in ents]
        for n, m, i in ents[:2]:
            m2 = 0o100644 if m == 0o40000 else 0o40000  # file <-> directory flips the sort position
            L2 = tuple((n, m2, mode_id(algo, m2)) if e[0] == n else e for e in ents)
            out.append(("__setitem__", lambda o, n=n, m2=m2: o.__setitem__(n, (m2, mode_id(algo, m2))), L2))
        new = _other(None, *[x for x in (b"a", b"a.", b"b") if x not in names])
        out.append(("add", lambda o: o.add(new, 0o40000, P["T0"]), tuple(ents) + ((new, 0o40000, P["T0"]),)))
        out.append(("__setitem__", lambda o: o.__setitem__(new, (0o100755, P["B0"])), tuple(ents) + ((new, 0o100755, P["B0"]),)))
        for n in names[:2]:
            out.append(("__delitem__", lambda o, n=n: o.__delitem__(n), tuple(e for e in ents if e[0] != n)))
        return out
    if kind == "commit":
        a, c = L["author"], L["committer"]
        out.append(("tree", lambda o: setattr(o, "tree", _other(L["tree"], P["T1"], P["T0"])),
                    _with(L, tree=_other(L["tree"], P["T1"], P["T0"]))))
        p2 = tuple(L["parents"]) + (P["C3"],)
        out.append(("parents", lambda o: setattr(o, "parents", list(p2)), _with(L, parents=p2)))
        if L["parents"]:
            out.append(("parents", lambda o: setattr(o, "parents", []), _with(L, parents=())))
        for f, tf, zf, idn in (("author", "author_time", "author_timezone", a), ("committer", "commit_time", "commit_timezone", c)):
            who = _other(idn[0], b"Other Person <other@example.org>")
            out.append((f, lambda o, f=f, who=who: setattr(o, f, who), _with(L, **{f: (who, idn[1], idn[2])})))
            t2 = _other(idn[1], 1700000000)
            out.append((tf, lambda o, tf=tf, t2=t2: setattr(o, tf, t2), _with(L, **{f: (idn[0], t2, idn[2])})))
            z2, ztxt = _tz_alt(idn)
            out.append((zf, lambda o, zf=zf, z2=z2: setattr(o, zf, z2), _with(L, **{f: (idn[0], idn[1], ztxt)})))
        e2 = _other(L["encoding"], b"UTF-16")
        out.append(("encoding", lambda o: setattr(o, "encoding", e2), _with(L, encoding=e2)))
        if L["encoding"] is not None:
            out.append(("encoding", lambda o: setattr(o, "encoding", None), _with(L, encoding=None)))
        mt2 = () if L["mergetags"] else (P["MT_PGP"],)
        out.append(("mergetag", lambda o: setattr(o, "mergetag", [O.Tag.from_string(r) for r in mt2]), _with(L, mergetags=mt2)))
        g2 = None if L["gpgsig"] is not None else PGP_SIG
        out.append(("gpgsig", lambda o: setattr(o, "gpgsig", g2), _with(L, gpgsig=g2)))
        m2 = _other(L["message"], b"changed message\n")
        out.append(("message", lambda o: setattr(o, "message", m2), _with(L, message=m2)))
        if L["message"] is not None:
            out.append(("message", lambda o: setattr(o, "message", None), _with(L, message=None)))
        return out
    if kind == "tag":
        tcls, tid = _other((L["type"], L["object"]), (b"commit", P["C1"]), (b"tree", P["T1"]))
        out.append(("object", lambda o: setattr(o, "object", (O.object_class(tcls), tid)), _with(L, type=tcls, object=tid)))
        n2 = _other(L["name"], b"renamed")
        out.append(("name", lambda o: setattr(o, "name", n2), _with(L, name=n2)))
        g = L["tagger"]
        if g is not None:
            who = _other(g[0], b"Other Person <other@example.org>")
            out.append(("tagger", lambda o: setattr(o, "tagger", who), _with(L, tagger=(who, g[1], g[2]))))
            out.append(("tagger", lambda o: setattr(o, "tagger", None), _with(L, tagger=None)))
            t2 = _other(g[1], 1700000000)
            out.append(("tag_time", lambda o: setattr(o, "tag_time", t2), _with(L, tagger=(g[0], t2, g[2]))))
            z2, ztxt = _tz_alt(g)
            out.append(("tag_timezone", lambda o: setattr(o, "tag_timezone", z2), _with(L, tagger=(g[0], g[1], ztxt))))
        canon_msg = L["message"] is not None and (L["message"] == b"" or L["message"].endswith(b"\n"))
        if L["message"] is not None:
            m2 = _other(L["message"], b"changed message\n")
            out.append(("message", lambda o: setattr(o, "message", m2), _with(L, message=m2)))
        if L["signature"] is not None:
            out.append(("signature", lambda o: setattr(o, "signature", None), _with(L, signature=None)))
        elif canon_msg:
            out.append(("signature", lambda o: setattr(o, "signature", SSH_SIG + b"\n"), _with(L, signature=SSH_SIG + b"\n")))
        return out
    raise AssertionError(kind)


def touches(kind, o):
    """[(label, fn)] re-assign a field its own value (forces a re-serialisation, changes nothing)."""
    if kind == "blob":
        return [("data", lambda: setattr(o, "data", o.data)), ("chunked", lambda: setattr(o, "chunked", list(o.chunked)))]
    if kind == "tree":
        names = list(o)
        return [("__setitem__", lambda n=n: o.__setitem__(n, o[n])) for n in names[:1]]
    if kind == "commit":
        fs = ("tree", "parents", "author", "committer", "message", "commit_time", "commit_timezone", "author_time",
              "author_timezone", "encoding", "mergetag", "gpgsig")
    else:
        fs = ("object", "name", "tagger", "tag_time", "tag_timezone", "message", "signature")
    return [(f, lambda f=f: setattr(o, f, getattr(o, f))) for f in fs]


def input_class(kind, L, field):
    """Fixed predicates of the *input* that select a different code path for this field."""
    if kind == "commit":
        who = "author" if field.startswith("author") else "committer" if field.startswith("commit") else None
        if who and field.endswith("timezone") and L[who][2] == b"-0000":
            return "[parsed-as--0000]"
    if kind == "tag" and field == "tag_timezone" and L["tagger"] and L["tagger"][2] == b"-0000":
        return "[parsed-as--0000]"
    return ""


# --------------------------------------------------------------------------- family A: one object


def features(kind, L, algo):
    """Structural classes of the enumerated object (vacuity guard)."""
    f = []
    if kind == "blob":
        f.append("blob:size=%s" % (len(L) if len(L) < 4 else ">=4" if len(L) < 4095 else "large"))
    elif kind == "tree":
        f.append("tree:entries=%d" % len(L))
        srt = ref.sort_entries(L)
        if [e[0] for e in srt] != sorted(e[0] for e in L):
            f.append("tree:dir-slash-rule-changes-order")
        for e in L:
            f.append("tree:mode=%o" % e[1])
    elif kind == "commit":
        f.append("commit:parents=%d" % len(L["parents"]))
        f.append("commit:mergetags=%d" % len(L["mergetags"]))
        f.append("commit:extra=%d" % len(L["extra"]))
        if any(b"\n" in v for _, v in L["extra"]):
            f.append("commit:extra-multiline")
        if any(b"\n\n" in v or v.endswith(b"\n") for _, v in L["extra"]):
            f.append("commit:extra-empty-continuation-line")
        f.append("commit:encoding=%s" % ("yes" if L["encoding"] else "no"))
        f.append("commit:gpgsig=%s" % ("none" if L["gpgsig"] is None else "ssh" if b"SSH" in L["gpgsig"] else "pgp"))
        m = L["message"]
        f.append("commit:message=%s" % ("missing" if m is None else "empty" if m == b"" else "no-final-lf" if not m.endswith(b"\n") else "leading-blank" if m.startswith(b"\n") else "text"))
        for who in ("author", "committer"):
            f.append("commit:tz=%s" % L[who][2].decode())
            t = L[who][1]
            f.append("commit:time=%s" % ("negative" if t < 0 else "small" if t < 2**31 else ">=2^31" if t < 2**32 else ">=2^32"))
    else:
        f.append("tag:type=%s" % L["type"].decode())
        f.append("tag:tagger=%s" % ("no" if L["tagger"] is None else "yes"))
        if L["tagger"]:
            f.append("tag:tz=%s" % L["tagger"][2].decode())
        f.append("tag:signature=%s" % ("none" if L["signature"] is None else "ssh" if b"SSH" in L["signature"] else "pgp"))
        m = L["message"]
        f.append("tag:message=%s" % ("missing" if m is None else "empty" if m == b"" else "no-final-lf" if not m.endswith(b"\n") else "text"))
    return f


def case_object(acc: Acc, algo, kind, L, tag="rust", fam="A"):
    """Everything the statement says about ONE logical object (oracles 1-4); returns
    (reference bytes, dulwich loose-object bytes or None)."""
    O, FMT = _O()
    if kind in ("commit", "tag"):
        L = dict(L)
    elif kind == "tree":
        L = tuple(tuple(e) for e in L)
    me = rp(case_object, algo, kind, L, tag, fam)
    K = kind if kind != "tree" else "tree.%s" % tag
    R = ref.serialize(kind, L, algo)
    back = ref.parse(kind, R, algo)
    if (kind == "tree" and tuple(back) != tuple(ref.sort_entries(L))) or (kind != "tree" and back != L):
        raise HarnessError("reference model does not round-trip %s %r -> %r" % (kind, L, back))
    acc.count("%s_objects_%s" % (fam, kind))
    acc.count("evaluations")
    for f in features(kind, L, algo):
        acc.outcome(f)
    exp = d_expected(kind, L)
    loose = None
    with impl(tag):
        # --- build from field values (two construction orders), serialise
        for variant in (0, 1) if kind in ("tree", "blob") else (0,):
            try:
                F = d_build(kind, L, algo, variant)
                fb = F.as_raw_string()
            except Exception as e:
                acc.violation("%s:build:raises-%s" % (K, type(e).__name__), "%r building %s %r" % (e, kind, L), me)
                continue
            cls = ref.diff_class(kind, fb, R, algo)
            acc.outcome("A:build:%s" % cls)
            if cls != "same":
                acc.violation("%s:build:serialise-%s" % (K, cls), "built from %r: got %r want %r" % (L, fb, R), me)
                # oracle 2 on dulwich's own bytes: parse(serialise(x)) has x's field values
                try:
                    d = first_field_diff(d_observed(kind, F), d_observed(kind, d_parse(kind, fb, algo)))
                    if d:
                        acc.violation("%s:roundtrip:field-%s-changes" % (K, d), "serialise->parse of %r changes %s" % (L, d), me)
                except Exception as e:
                    acc.violation("%s:roundtrip:raises-%s" % (K, type(e).__name__), "%r re-parsing own bytes %r" % (e, fb), me)
            check_ids(acc, F, algo, kind, "build", me)
            if variant == 0:
                try:
                    loose = (F.get_id(FMT[algo]), F.as_legacy_object())
                except Exception as e:
                    acc.violation("%s:build:as_legacy_object-raises-%s" % (K, type(e).__name__), repr(e), me)
        # --- parse the canonical bytes
        try:
            P = d_parse(kind, R, algo)
            obs = d_observed(kind, P)
        except Exception as e:
            acc.violation("%s:parse:raises-%s" % (K, type(e).__name__), "%r parsing %r" % (e, R), me)
            return R, loose
        d = first_field_diff(exp, obs)
        if d:
            acc.violation("%s:parse:field-%s" % (K, d), "parsing %r: %s = %r, want %r" % (R, d, obs.get(d), exp[d]), me)
        if P.as_raw_string() != R:
            acc.violation("%s:parse:as_raw_string-differs" % K, "parsed %r gives back %r" % (R, P.as_raw_string()), me)
        check_ids(acc, P, algo, kind, "parse", me)
        if algo == "sha1":
            Q = getattr(O, kind.capitalize()).from_string(R)
            if first_field_diff(exp, d_observed(kind, Q)) or Q.id != harness_id("sha1", kind, R):
                acc.violation("%s:from_string:differs-from-from_raw_string" % K, "from_string(%r)" % (R,), me)
        # --- re-serialise untouched
        base_cls = set()
        for label, _ in touches(kind, P):
            try:
                P = d_parse(kind, R, algo)
                P.id  # cache filled: the situation a stale-cache bug needs
                dict(touches(kind, P))[label]()
                got = P.as_raw_string()
            except Exception as e:
                acc.violation("%s:reserialise-unchanged:raises-%s" % (K, type(e).__name__), "%r after %s=%s on %r" % (e, label, label, R), me)
                continue
            acc.count("reserialise_unchanged")
            cls = ref.diff_class(kind, got, R, algo)
            acc.outcome("A:reserialise-unchanged:%s" % cls)
            base_cls.add(cls)
            if cls != "same":
                acc.violation("%s:reserialise-unchanged:%s" % (K, cls),
                              "parse %r; o.%s = o.%s; as_raw_string() -> %r" % (R, label, label, got), me)
            check_ids(acc, P, algo, kind, "reserialise-unchanged", me)
        # --- re-serialise after exactly one field change
        for label, fn, L2 in edits(kind, L, algo):
            want = ref.serialize(kind, L2, algo)
            try:
                P = d_parse(kind, R, algo)
                P.id
                P.get_id(FMT[algo])
                fn(P)
                got = P.as_raw_string()
            except Exception as e:
                acc.violation("%s:reserialise-after-set-%s%s:raises-%s" % (K, label, input_class(kind, L, label), type(e).__name__),
                              "%r after changing %s on %r" % (e, label, R), me)
                continue
            acc.count("reserialise_one_field_changed")
            cls = ref.diff_class(kind, got, want, algo)
            acc.outcome("A:one-field-changed:%s" % cls)
            if cls != "same" and cls in base_cls:
                # the same deviation already happens without changing anything: not specific to this field
                acc.violation("%s:reserialise-unchanged:%s" % (K, cls),
                              "parse %r; change %s; got %r want %r" % (R, label, got, want), me)
            elif cls != "same":
                acc.violation("%s:reserialise-after-set-%s%s:%s" % (K, label, input_class(kind, L, label), cls),
                              "parse %r; change %s; got %r want %r" % (R, label, got, want), me)
            check_ids(acc, P, algo, kind, "after-set-%s" % label, me)
    return R, loose


# --------------------------------------------------------------------------- family B: blob chunkings


def case_blob_chunks(acc: Acc, chunks):
    """The same content under one chunking, through every way a chunk list reaches a Blob."""
    O, FMT = _O()
    chunks = [bytes(c) for c in chunks]
    content = b"".join(chunks)
    me = rp(case_blob_chunks, chunks)
    acc.count("B_blob_chunkings")
    acc.count("evaluations")
    acc.outcome("B:chunks=%s" % (len(chunks) if len(chunks) < 4 else ">=4"))
    if any(c == b"" for c in chunks):
        acc.outcome("B:has-empty-chunk")
    want1 = harness_id("sha1", "blob", content)
    want2 = harness_id("sha256", "blob", content)

    def judge(how, b):
        bad = None
        if b.as_raw_string() != content or b.data != content or b"".join(b.as_raw_chunks()) != content:
            bad = "content-differs"
        elif b.id != want1 or b.sha().hexdigest().encode() != want1:
            bad = "id-is-not-hash-of-content"
        elif b.get_id(FMT["sha256"]) != want2 or b.get_id(FMT["sha1"]) != want1:
            bad = "get_id-is-not-hash-of-content"
        elif b.raw_length() != len(content):
            bad = "raw_length"
        elif zlib.decompress(b.as_legacy_object()) != b"blob %d\0" % len(content) + content:
            bad = "legacy-object-differs"
        elif O.ShaFile.from_raw_string(3, b.as_raw_string()).id != want1:
            bad = "reparse-id"
        if bad:
            acc.violation("blob:%s:%s" % (how, bad), "chunks=%r" % (chunks,), me)

    b = O.Blob()
    b.chunked = list(chunks)
    judge("chunked-setter", b)
    judge("from_raw_chunks", O.ShaFile.from_raw_chunks(3, list(chunks)))
    b = O.Blob()
    b.set_raw_chunks(list(chunks))
    judge("set_raw_chunks", b)
    # a blob that already answered for other content, then receives these chunks
    b = O.Blob.from_string(b"previous content")
    b.id, b.get_id(FMT["sha256"]), b.as_raw_string()
    b.chunked = list(chunks)
    judge("chunked-setter-after-id", b)
    b = O.Blob.from_string(b"previous content")
    b.id
    b.set_raw_chunks(list(chunks))
    judge("set_raw_chunks-after-id", b)


def blob_contents(quick):
    small = list(strings([b"\x00", b"\n", b"a", b"\xff"], 3))
    mid = [b"a\n\x00\xff", b"\n\n\xffa\x00", b"ab\ncd\n", b"\x00" * 6] if quick else list(strings([b"\x00", b"\n", b"a", b"\xff"], 5, 4)) + [b"ab\ncd\n", b"\x00" * 6]
    return small, mid


def chunkings(content, with_empty):
    n = len(content)
    for comp in compositions(n):
        ch = []
        pos = 0
        for k in comp:
            ch.append(content[pos : pos + k])
            pos += k
        yield ch
        if with_empty:
            for i in range(len(ch) + 1):
                yield ch[:i] + [b""] + ch[i:]


def big_chunkings(n):
    data = bytes((i * 7 + (i >> 8)) & 0xFF for i in range(n))
    yield [data]
    for k in (1, 2, n // 2, 4095, 4096, 4097, n - 1):
        if 0 < k < n:
            yield [data[:k], data[k:]]
    yield [data[i : i + 4096] for i in range(0, n, 4096)]
    yield [data[i : i + 4095] for i in range(0, n, 4095)]
    yield [b"", data, b""]
    yield [data[:1], b"", data[1:-1], data[-1:]]
