"""C19 — pkt-line and side-band framing round-trips under any read chunking.

Bounded-exhaustive enumeration (engine E4) of
  (a) frame sequences x every partition of the encoded stream into read/recv chunks,
      decoded by ReceivableProtocol, PktLineParser and Protocol (+eof/unread mixes),
  (b) pkt-lines followed by a raw tail consumed by every mix of read(k)/recv(k),
  (c) every 4-hex-digit length prefix (65 536) x body variants and all 4-byte prefixes over a
      non-hex alphabet, fed to the three decoders (robustness),
  (d) encoder well-formedness for payload sizes around the 65516/65520 limits,
  (e) side-band multiplexing of 3 channels,
  (f) PackStreamReader trailer tracking under every 1-/2-(/3-)cut chunking of a small pack,
  (g) capability / ref-line round trips.
Oracle: an independent reference framing codec (refmodels/pktline.py).
"""

from __future__ import annotations

import itertools
from io import BytesIO

from engines.common import Acc, pmap_acc, rp, split, replay_generic
from engines.refmodels import pktline as ref

DELIM = ref.DELIM


def _imports():
    from dulwich import protocol as P
    from dulwich.errors import GitProtocolError, HangupException

    return P, GitProtocolError, HangupException


# --------------------------------------------------------------------------- chunk feeders


class ChunkSource:
    """Serves a byte stream in exactly the given chunks: recv(n) never crosses a chunk
    boundary, read(n) blocks (concatenates) until n bytes or EOF."""

    def __init__(self, stream: bytes, cuts):
        self.chunks = []
        prev = 0
        for c in list(cuts) + [len(stream)]:
            if c > prev:
                self.chunks.append(stream[prev:c])
            prev = c
        self.i = 0
        self.off = 0
        self.bad_request = None

    def recv(self, n):
        if n <= 0 and self.bad_request is None:
            self.bad_request = n
        if self.i >= len(self.chunks):
            return b""
        ch = self.chunks[self.i]
        out = ch[self.off : self.off + max(n, 0)]
        self.off += len(out)
        if self.off >= len(ch):
            self.i += 1
            self.off = 0
        return out

    def read(self, n):
        if n < 0 and self.bad_request is None:
            self.bad_request = n
        out = b""
        while len(out) < n:
            d = self.recv(n - len(out))
            if not d:
                break
            out += d
        return out


def cut_sets(n, max_cuts=None):
    """All subsets of cut positions 1..n-1 (optionally with at most max_cuts elements)."""
    pos = range(1, n)
    if max_cuts is None:
        for r in range(0, n):
            yield from itertools.combinations(pos, r)
    else:
        for r in range(0, min(max_cuts, n - 1) + 1):
            yield from itertools.combinations(pos, r)


# --------------------------------------------------------------------------- decoders under test


def dec_receivable(stream, cuts):
    P, GPE, Hangup = _imports()
    src = ChunkSource(stream, cuts)
    proto = P.ReceivableProtocol(src.recv, lambda b: None)
    out = []
    try:
        for _ in range(len(stream) + 2):
            out.append(proto.read_pkt_line())
        return ("loop", out, src)
    except Hangup:
        return ("eof", out, src)
    except GPE:
        return ("perr", out, src)
    except Exception as e:  # anything else is what the property forbids
        return ("exc:" + type(e).__name__, out, src)


def dec_parser(stream, cuts):
    P, GPE, Hangup = _imports()
    out = []
    parser = P.PktLineParser(out.append)
    src = ChunkSource(stream, cuts)
    try:
        for ch in src.chunks:
            parser.parse(ch)
        return ("tail", out, parser.get_tail())
    except GPE:
        return ("perr", out, None)
    except Hangup:
        return ("eof", out, None)
    except Exception as e:
        return ("exc:" + type(e).__name__, out, None)


def dec_protocol(stream, eofmask=0):
    """Plain Protocol over a file-like read; bit i of eofmask => call eof() before read i."""
    P, GPE, Hangup = _imports()
    f = BytesIO(stream)
    proto = P.Protocol(f.read, lambda b: None)
    out = []
    try:
        for i in range(len(stream) + 2):
            if eofmask >> i & 1:
                if proto.eof():
                    return ("eof", out, None)
            out.append(proto.read_pkt_line())
        return ("loop", out, None)
    except Hangup:
        return ("eof", out, None)
    except GPE:
        return ("perr", out, None)
    except Exception as e:
        return ("exc:" + type(e).__name__, out, None)


def _norm(frames):
    return [None if f is DELIM else f for f in frames]


# --------------------------------------------------------------------------- (a) round trip x chunking


def case_roundtrip(acc: Acc, frames, cuts):
    """frames: list of payloads (None=flush). Encode with dulwich, decode under this chunking."""
    P, GPE, Hangup = _imports()
    frames = list(frames)
    stream = b"".join(P.pkt_line(f) for f in frames)
    if ref.encode_all(frames) != stream:
        acc.violation("encoder:pkt_line:differs-from-reference", "frames=%r stream=%r" % (frames, stream),
                      rp(case_roundtrip, frames, list(cuts)))
        return
    acc.count("roundtrip_cases")
    st, out, src = dec_receivable(stream, cuts)
    acc.outcome("rt:receivable:" + st)
    if st != "eof" or out != frames or src.bad_request is not None:
        acc.violation("roundtrip:ReceivableProtocol:%s" % (st if st != "eof" else "mismatch"),
                      "frames=%r cuts=%r got=%r status=%s badreq=%r" % (frames, cuts, out, st, src.bad_request),
                      rp(case_roundtrip, frames, list(cuts)))
    st, out, tail = dec_parser(stream, cuts)
    acc.outcome("rt:parser:" + st)
    if st != "tail" or out != frames or tail != b"":
        acc.violation("roundtrip:PktLineParser:%s" % (st if st != "tail" else "mismatch"),
                      "frames=%r cuts=%r got=%r tail=%r" % (frames, cuts, out, tail),
                      rp(case_roundtrip, frames, list(cuts)))


def case_protocol_eofmix(acc: Acc, frames, mask):
    P, GPE, Hangup = _imports()
    frames = list(frames)
    stream = b"".join(P.pkt_line(f) for f in frames)
    st, out, _ = dec_protocol(stream, mask)
    acc.count("eofmix_cases")
    acc.outcome("rt:protocol:" + st)
    if st != "eof" or out != frames:
        acc.violation("roundtrip:Protocol+eof:%s" % (st if st != "eof" else "mismatch"),
                      "frames=%r eofmask=%s got=%r" % (frames, bin(mask), out),
                      rp(case_protocol_eofmix, frames, mask))


def case_delim(acc: Acc, pre, cuts):
    """delim-pkt (0001) mixed with ordinary frames: Protocol/ReceivableProtocol return None."""
    stream = ref.encode_all(pre)
    want = _norm(pre)
    st, out, src = dec_receivable(stream, cuts)
    acc.count("delim_cases")
    if st != "eof" or out != want:
        acc.violation("roundtrip:ReceivableProtocol:delim", "frames=%r cuts=%r got=%r st=%s" % (pre, cuts, out, st),
                      rp(case_delim, pre, list(cuts)))
    st, out, _ = dec_protocol(stream)
    if st != "eof" or out != want:
        acc.violation("roundtrip:Protocol:delim", "frames=%r got=%r st=%s" % (pre, out, st),
                      rp(case_delim, pre, list(cuts)))


# --------------------------------------------------------------------------- (b) pkt-lines then raw tail


def case_tail_mix(acc: Acc, frames, tail, cuts, ops):
    """Read the frames with read_pkt_line, then consume the raw tail with the op sequence
    (('r',k)|('v',k))* repeated cyclically until EOF.  Concatenation must equal the tail."""
    P, GPE, Hangup = _imports()
    frames = list(frames)
    stream = b"".join(P.pkt_line(f) for f in frames) + tail
    src = ChunkSource(stream, cuts)
    proto = P.ReceivableProtocol(src.recv, lambda b: None)
    acc.count("tailmix_cases")
    try:
        got = [proto.read_pkt_line() for _ in frames]
        raw = b""
        for i in range(4 * len(tail) + 4):
            kind, k = ops[i % len(ops)]
            d = proto.read(k) if kind == "r" else proto.recv(k)
            if len(d) > k:
                acc.violation("tailmix:returned-more-than-asked", "op=%s%d got %r" % (kind, k, d),
                              rp(case_tail_mix, frames, tail, list(cuts), [list(o) for o in ops]))
            if kind == "r" and len(d) < k and len(raw) + len(d) < len(tail):
                acc.violation("tailmix:read-short-before-eof", "op=r%d got %r after %r" % (k, d, raw),
                              rp(case_tail_mix, frames, tail, list(cuts), [list(o) for o in ops]))
            if not d:
                break
            raw += d
        ok = got == frames and raw == tail
    except Exception as e:
        ok = False
        raw = "exc:%s:%s" % (type(e).__name__, e)
        got = None
    acc.outcome("tailmix:" + ("ok" if ok else "bad"))
    if not ok:
        acc.violation("tailmix:ReceivableProtocol:mismatch",
                      "frames=%r tail=%r cuts=%r ops=%r -> frames=%r raw=%r" % (frames, tail, cuts, ops, got, raw),
                      rp(case_tail_mix, frames, tail, list(cuts), [list(o) for o in ops]))


# --------------------------------------------------------------------------- (c) decoder robustness


def _fine_cuts(stream):
    """1-byte chunks for short streams; for long ones cuts around the prefix and the end."""
    n = len(stream)
    if n <= 64:
        return range(1, n)
    return [c for c in (1, 3, 4, 5, n - 1) if 0 < c < n]


def _robust_one(acc: Acc, stream: bytes, tag: str, fn_name, args):
    """Compare the three decoders with the reference on an arbitrary byte string."""
    want = ref.decode_prefixwise(stream)  # (frames, status) status in ok|short|bad
    wframes, wst = _norm(want[0]), want[1]
    # ReceivableProtocol (single chunk and 1-byte chunks) and Protocol
    for name, (st, out, aux) in (
        ("ReceivableProtocol", dec_receivable(stream, ())),
        ("ReceivableProtocol/1", dec_receivable(stream, _fine_cuts(stream))),
        ("Protocol", dec_protocol(stream)),
    ):
        acc.outcome("robust:%s:%s:%s" % (name.split("/")[0], wst, st))
        bad = None
        if st.startswith("exc:") or st == "loop":
            bad = "unexpected-" + st
        elif out != wframes:
            bad = "frames-differ"
        elif wst == "ok" and st != "eof":
            bad = "valid-stream-rejected"
        elif wst == "bad" and st != "perr":
            bad = "malformed-accepted"
        elif wst == "short" and st not in ("perr", "eof"):
            bad = "short-accepted"
        if aux is not None and aux.bad_request is not None:
            bad = "negative-or-zero-read-request"
        if bad:
            acc.violation("decoder:%s:%s" % (name.split("/")[0], bad),
                          "%s stream=%r want=%r/%s got=%r/%s" % (tag, stream[:40], wframes, wst, out, st),
                          rp(fn_name, *args))
    wnodelim, wst2 = ref.decode_prefixwise(stream, delim_ok=False)
    for cuts in ((), _fine_cuts(stream)):
        st, out, tail = dec_parser(stream, cuts)
        acc.outcome("robust:parser:%s:%s" % (wst2, st))
        bad = None
        if st.startswith("exc:"):
            bad = "unexpected-" + st
        elif out != wnodelim:
            bad = "frames-differ"
        elif wst2 == "bad" and st != "perr":
            bad = "malformed-accepted"
        elif wst2 in ("ok", "short") and st != "tail":
            bad = "valid-prefix-rejected"
        elif wst2 == "ok" and tail != b"":
            bad = "tail-left"
        if bad:
            acc.violation("decoder:PktLineParser:%s" % bad,
                          "%s stream=%r want=%r/%s got=%r/%s" % (tag, stream[:40], wnodelim, wst2, out, st),
                          rp(fn_name, *args))


def case_hex_prefix(acc: Acc, n: int, variant: str, upper: bool):
    """Length prefix = 4 hex digits of n; body exact / short / long / empty."""
    p = ("%04X" if upper else "%04x") % n
    p = p.encode()
    blen = max(n - 4, 0)
    if variant == "exact":
        body = b"x" * blen
    elif variant == "short":
        body = b"x" * max(blen - 1, 0)
    elif variant == "long":
        body = b"x" * blen + b"0000"
    else:
        body = b""
    acc.count("robust_hex_cases")
    _robust_one(acc, p + body, "hex n=%d %s" % (n, variant), "case_hex_prefix", (n, variant, upper))


ROBUST_ALPHA = [b"0", b"1", b"f", b"F", b"g", b"-", b"+", b" ", b"x", b"_", b"\x00"]


def case_raw_prefix(acc: Acc, prefix: bytes, body: bytes):
    acc.count("robust_raw_cases")
    _robust_one(acc, prefix + body, "raw", "case_raw_prefix", (prefix, body))


# --------------------------------------------------------------------------- (d) encoder


ENC_SIZES = [0, 1, 2, 65515, 65516, 65517, 65519, 65520, 65521, 65531, 65532, 65536, 70000, 131072]


def _wellformed_single(stream: bytes, payload: bytes):
    frames, st = ref.decode_prefixwise(stream)
    if st != "ok" or frames != [payload]:
        return "does not re-parse (status=%s, frames=%d)" % (st, len(frames))
    if len(stream) > ref.MAX_PKT:
        return "frame of %d bytes exceeds the 65520-byte pkt-line limit (prefix %r)" % (len(stream), stream[:4])
    return None


def case_encoder(acc: Acc, which: str, n: int):
    P, GPE, Hangup = _imports()
    payload = bytes([65 + (i % 7) for i in range(n)])
    acc.count("encoder_cases")
    try:
        if which == "pkt_line":
            stream = P.pkt_line(payload)
        elif which == "write_pkt_line":
            f = BytesIO()
            P.Protocol(None, f.write).write_pkt_line(payload)
            stream = f.getvalue()
        elif which == "pkt_seq":
            stream = P.pkt_seq(payload)
            assert stream.endswith(b"0000")
            stream = stream[:-4]
        elif which == "buffered":
            f = BytesIO()
            w = P.BufferedPktLineWriter(f.write)
            w.write(payload)
            w.flush()
            stream = f.getvalue()
        else:
            raise AssertionError(which)
    except Exception as e:
        acc.outcome("encoder:%s:refused:%s" % (which, type(e).__name__))
        if n <= ref.MAX_PAYLOAD:
            acc.violation("encoder:%s:refuses-legal-payload" % which, "n=%d %r" % (n, e), rp(case_encoder, which, n))
        return
    why = _wellformed_single(stream, payload)
    acc.outcome("encoder:%s:%s" % (which, "ok" if not why else "malformed"))
    if why:
        acc.violation("encoder:%s:oversize-frame-emitted" % which, "payload of %d bytes: %s" % (n, why),
                      rp(case_encoder, which, n))


def case_buffered_seq(acc: Acc, sizes, bufsize):
    """BufferedPktLineWriter -> PktLineParser for a sequence of payload sizes."""
    P, GPE, Hangup = _imports()
    payloads = [bytes([97 + i]) * n for i, n in enumerate(sizes)]
    written = []
    w = P.BufferedPktLineWriter(written.append, bufsize=bufsize)
    for p in payloads:
        w.write(p)
    w.flush()
    out = []
    parser = P.PktLineParser(out.append)
    acc.count("buffered_cases")
    try:
        for ch in written:
            parser.parse(ch)
        ok = out == payloads and parser.get_tail() == b""
    except Exception as e:
        ok = False
        out = repr(e)
    acc.outcome("buffered:" + ("ok" if ok else "bad"))
    if not ok:
        acc.violation("roundtrip:BufferedPktLineWriter:mismatch", "sizes=%r bufsize=%d got=%r" % (sizes, bufsize, str(out)[:200]),
                      rp(case_buffered_seq, list(sizes), bufsize))


# --------------------------------------------------------------------------- (e) side-band


def case_sideband(acc: Acc, msgs):
    """msgs: list of (channel, size).  write_sideband -> read_pkt_seq -> _read_side_band64k_data."""
    P, GPE, Hangup = _imports()
    from dulwich.client import _read_side_band64k_data

    f = BytesIO()
    w = P.Protocol(None, f.write)
    blobs = [(ch, bytes([48 + ch]) + bytes([97 + (i + j) % 26 for j in range(n - 1)]) if n else b"") for i, (ch, n) in enumerate(msgs)]
    acc.count("sideband_cases")
    try:
        for ch, b in blobs:
            w.write_sideband(ch, b)
        w.write_pkt_line(None)
    except Exception as e:
        acc.violation("sideband:encoder-raises", "msgs=%r %r" % (msgs, e), rp(case_sideband, [list(m) for m in msgs]))
        return
    stream = f.getvalue()
    frames, st = ref.decode_prefixwise(stream)
    if st != "ok" or any(fr is not None and len(fr) + 4 > ref.MAX_PKT for fr in frames):
        acc.violation("sideband:malformed-frame", "msgs=%r status=%s max=%d" % (msgs, st, max(len(fr or b"") for fr in frames) + 4),
                      rp(case_sideband, [list(m) for m in msgs]))
        return
    r = P.Protocol(BytesIO(stream).read, None)
    got = {}
    order = []
    for ch, data in _read_side_band64k_data(r.read_pkt_seq()):
        got[ch] = got.get(ch, b"") + data
        order.append(ch)
    want = {}
    for ch, b in blobs:
        if b:
            want[ch] = want.get(ch, b"") + b
    ok = got == want
    acc.outcome("sideband:" + ("ok" if ok else "bad"))
    if not ok:
        acc.violation("sideband:roundtrip-mismatch", "msgs=%r channels got=%r want=%r" % (
            msgs, {k: len(v) for k, v in got.items()}, {k: len(v) for k, v in want.items()}),
            rp(case_sideband, [list(m) for m in msgs]))


# --------------------------------------------------------------------------- (e2) report-status inside a side-band stream

REPORTS = [
    [b"unpack ok\n", b"ok refs/heads/a\n"],
    [b"unpack ok\n", b"ok refs/heads/a\n", b"ng refs/heads/b failed to update ref\n"],
    [b"unpack ok\n", b"ng refs/heads/\xc3\xa9 some reason\n", b"ok refs/tags/t\n", b"ok refs/heads/c\n"],
    [b"unpack ok\n"],
]


def case_report_tail(acc: Acc, ridx, cuts, progress_mask, sideband):
    """The client's decoder of a receive-pack answer: the report (inner pkt-lines + flush) is carried by side-band
    data packets cut at `cuts` (any inner offset, so an inner pkt-line may straddle two outer packets), optionally with
    a progress packet before each data packet (progress_mask), or sent plainly (sideband=False)."""
    P, GPE, Hangup = _imports()
    from dulwich.client import GitClient, ReportStatusParser

    report = REPORTS[ridx]
    inner = b"".join(P.pkt_line(x) for x in report) + b"0000"
    out = BytesIO()
    w = P.Protocol(None, out.write)
    if sideband:
        pieces = [inner[a:b] for a, b in zip((0,) + tuple(cuts), tuple(cuts) + (len(inner),))]
        for i, piece in enumerate(pieces):
            if progress_mask >> i & 1:
                w.write_sideband(2, b"progress %d\n" % i)
            w.write_sideband(1, piece)
        w.write_pkt_line(None)
    else:
        out.write(inner)
    acc.count("report_tail_cases")
    want = {}
    for line in report[1:]:
        st, rest = line.strip().split(b" ", 1)
        if st == b"ok":
            want[rest] = None
        else:
            name, why = rest.split(b" ", 1)
            want[name] = why.decode()
    c = GitClient.__new__(GitClient)
    c._report_status_parser = ReportStatusParser()
    c.protocol_version = 0
    r = P.Protocol(BytesIO(out.getvalue()).read, None)
    caps = {b"report-status"} | ({b"side-band-64k"} if sideband else set())
    seen = []
    rpl = rp(case_report_tail, ridx, list(cuts), progress_mask, sideband)
    what = "report %d cut at %r progress-mask %d sideband=%s" % (ridx, cuts, progress_mask, sideband)
    try:
        got = c._handle_receive_pack_tail(r, caps, seen.append)
    except Exception as e:
        acc.outcome("report-tail:raises")
        acc.violation("report-status:client-decoder-raises:%s" % type(e).__name__, "%s: %r" % (what, e), rpl)
        return
    ok = got == want
    acc.outcome("report-tail:" + ("ok" if ok else "bad"))
    if not ok:
        acc.violation("report-status:client-decodes-a-different-report", "%s: got %r, sent %r" % (what, got, want), rpl)
    nprog = bin(progress_mask & ((1 << (len(cuts) + 1)) - 1)).count("1") if sideband else 0
    if len(seen) != nprog:
        acc.violation("report-status:progress-messages-lost-or-invented", "%s: %d progress callbacks, %d sent" % (what, len(seen), nprog), rpl)


# --------------------------------------------------------------------------- (f) pack stream trailer


_PACK = {}


def _small_pack(algo="sha1"):
    if algo in _PACK:
        return _PACK[algo]
    from dulwich.objects import Blob
    from dulwich.pack import write_pack_objects

    objs = [Blob.from_string(b"alpha"), Blob.from_string(b"beta beta beta"), Blob.from_string(b"")]
    f = BytesIO()
    from dulwich.object_format import SHA1

    write_pack_objects(f.write, [(o, None) for o in objs], SHA1, deltify=False)
    data = f.getvalue()
    _PACK[algo] = (data, [(o.type_num, o.as_raw_string()) for o in objs])
    return _PACK[algo]


def case_packstream(acc: Acc, cuts, zbuf, use_recv):
    import hashlib

    from dulwich.pack import PackStreamReader

    data, want = _small_pack()
    src = ChunkSource(data, cuts)
    acc.count("packstream_cases")
    try:
        r = PackStreamReader(hashlib.sha1, src.read, src.recv if use_recv else None, zlib_bufsize=zbuf)
        got = [(u.obj_type_num, b"".join(u.obj_chunks)) for u in r.read_objects()]
        ok = got == want
        why = "objects differ: %r" % (got,)
    except Exception as e:
        ok = False
        why = "%s: %s" % (type(e).__name__, e)
    acc.outcome("packstream:" + ("ok" if ok else "bad"))
    if not ok:
        acc.violation("packstream:trailer-or-content-mismatch", "cuts=%r zbuf=%d recv=%s: %s" % (cuts, zbuf, use_recv, why),
                      rp(case_packstream, list(cuts), zbuf, use_recv))


# --------------------------------------------------------------------------- (g) capability / ref lines


CAP_ALPHA = [b"a", b"=", b":", b"-", b"\xc3\xa9", b"."]


def case_caps(acc: Acc, ref_name, caps):
    P, GPE, Hangup = _imports()
    sha = b"1" * 40
    acc.count("caps_cases")
    line = P.format_ref_line(ref_name, sha, list(caps) if caps is not None else None)
    # through the framing as well
    stream = P.pkt_line(line)
    st, out, _ = dec_protocol(stream)
    if st != "eof" or out != [line]:
        acc.violation("caps:framing", "line=%r" % line, rp(case_caps, ref_name, caps))
        return
    text, got = P.extract_capabilities(out[0])
    want_caps = list(caps) if caps else []
    try:
        gsha, gref = text.rstrip(b"\n").split(b" ", 1)
    except ValueError:
        gsha = gref = None
    ok = got == want_caps and gsha == sha and gref == ref_name
    acc.outcome("caps:" + ("ok" if ok else "bad"))
    if not ok:
        acc.violation("caps:ref-line-roundtrip", "ref=%r caps=%r -> text=%r caps=%r" % (ref_name, caps, text, got),
                      rp(case_caps, ref_name, caps))
    if caps:
        wl = b"want " + sha + P.format_capability_line(list(caps))[0:] + b"\n"
        text2, got2 = P.extract_want_line_capabilities(wl)
        if got2 != list(caps) or text2 != b"want " + sha:
            acc.violation("caps:want-line-roundtrip", "caps=%r -> %r %r" % (caps, text2, got2), rp(case_caps, ref_name, caps))


# --------------------------------------------------------------------------- task plumbing

FRAME_ALPHA = [None, b"", b"a", b"ab\n", b"a\x00b"]


def _frame_seqs(maxlen):
    for n in range(1, maxlen + 1):
        yield from itertools.product(FRAME_ALPHA, repeat=n)


def work(task):
    kind, items, params = task
    acc = Acc()
    if kind == "roundtrip":
        full_max, cut_max = params
        for frames in items:
            L = sum(4 + (len(f) if f else 0) for f in frames)
            gen = cut_sets(L) if L <= full_max else cut_sets(L, cut_max)
            k = 0
            for cuts in gen:
                case_roundtrip(acc, frames, cuts)
                k += 1
            acc.sample({"frames": [repr(f) for f in frames], "stream_len": L, "chunkings": k,
                        "mode": "all" if L <= full_max else "<=%d cuts" % cut_max}, cap=2)
            for mask in range(1 << (len(frames) + 1)):
                case_protocol_eofmix(acc, frames, mask)
    elif kind == "delim":
        for frames in items:
            frames = [DELIM if f == "D" else f for f in frames]
            L = len(ref.encode_all(frames))
            for cuts in cut_sets(L, params):
                case_delim(acc, frames, cuts)
    elif kind == "tailmix":
        opseqs, = params
        for frames, tail in items:
            L = sum(4 + (len(f) if f else 0) for f in frames) + len(tail)
            for cuts in cut_sets(L, 3 if L > 12 else None):
                for ops in opseqs:
                    case_tail_mix(acc, frames, tail, cuts, ops)
    elif kind == "hex":
        for n in items:
            for variant in params:
                case_hex_prefix(acc, n, variant, False)
            if n % 16 >= 10 or (n >> 4) % 16 >= 10 or (n >> 8) % 16 >= 10 or (n >> 12) >= 10:
                case_hex_prefix(acc, n, "exact", True)
    elif kind == "raw":
        for prefix in items:
            for body in params:
                case_raw_prefix(acc, prefix, body)
    elif kind == "encoder":
        for which, n in items:
            case_encoder(acc, which, n)
    elif kind == "buffered":
        for sizes, bufsize in items:
            case_buffered_seq(acc, sizes, bufsize)
    elif kind == "sideband":
        for msgs in items:
            case_sideband(acc, msgs)
    elif kind == "report":
        for ridx, cuts, mask, sb in items:
            case_report_tail(acc, ridx, cuts, mask, sb)
    elif kind == "packstream":
        for cuts in items:
            for zbuf in params:
                for use_recv in (True, False):
                    case_packstream(acc, cuts, zbuf, use_recv)
    elif kind == "caps":
        for ref_name, caps in items:
            case_caps(acc, ref_name, caps)
    elif kind == "large":
        for n, cuts in items:
            case_roundtrip(acc, [b"L" * n, None, b"z"], cuts)
    else:
        raise AssertionError(kind)
    return acc


def run(ctx):
    q = ctx.quick
    J = ctx.jobs * 4
    tasks = []
    # (a)
    seqs = ctx.order(_frame_seqs(3 if q else 4))
    full_max, cut_max = (13, 3) if q else (16, 4)
    for part in split(seqs, J * 2):
        tasks.append(("roundtrip", part, (full_max, cut_max)))
    delim_seqs = [s for s in itertools.product([None, "D", b"a"], repeat=3) if "D" in s] + [("D",), ("D", "D")]
    tasks.append(("delim", delim_seqs, 2 if q else 4))
    # large payloads with cuts near every frame boundary
    large = []
    for n in (65515, 65516) + (() if q else (65511, 65512)):
        L = n + 4
        near = sorted(set([c for b in (4, L, L + 4, L + 8) for c in range(b - 5, b + 6) if 0 < c < L + 9]))
        cs = [()] + [(c,) for c in near] + (list(itertools.combinations(near, 2)) if not q else list(itertools.combinations(near[::3], 2)))
        for part in split(cs, 8):
            tasks.append(("large", [(n, c) for c in part], None))
    # (b)
    ks = (1, 2, 5)
    single = [(("r", k),) for k in ks] + [(("v", k),) for k in ks]
    pairs = [(a[0], b[0]) for a in single for b in single if a != b]
    opseqs = single + pairs
    tails = [b"", b"P", b"PACK", b"PACKxy"] if q else [b"", b"P", b"PA", b"PACK", b"PACKxy", b"PACKxyzw"]
    tm = [(frames, tail) for frames in _frame_seqs(1 if q else 2) for tail in tails]
    for part in split(ctx.order(tm), J):
        tasks.append(("tailmix", part, (opseqs,)))
    # (c)
    variants = ("exact", "short", "long", "empty")
    for part in split(ctx.order(range(65536)), J * 2):
        tasks.append(("hex", part, variants))
    raws = [b"".join(t) for t in itertools.product(ROBUST_ALPHA, repeat=4)]
    bodies = (b"", b"x", b"xxxxxxxxxxxxxxxxxxxx")
    for part in split(ctx.order(raws), J):
        tasks.append(("raw", part, bodies))
    # (d)
    enc_items = [(w, n) for w in ("pkt_line", "write_pkt_line", "pkt_seq", "buffered") for n in ENC_SIZES]
    for part in split(enc_items, 8):
        tasks.append(("encoder", part, None))
    bs = []
    size_alpha = [0, 1, 5, 11]
    for bufsize in (1, 4, 8, 9, 10, 16, 20, 65515):
        for n in range(1, 4 if q else 5):
            for sizes in itertools.product(size_alpha, repeat=n):
                bs.append((sizes, bufsize))
    for part in split(bs, 8):
        tasks.append(("buffered", part, None))
    # (e)
    sb_sizes = [0, 1, 2, 65514, 65515, 65516, 65520, 131030] if q else [0, 1, 2, 65514, 65515, 65516, 65519, 65520, 65521, 131030, 131031, 196545]
    sb = []
    for n in (1, 2) if q else (1, 2, 3):
        for chans in itertools.product((1, 2, 3), repeat=n):
            for sizes in itertools.product(sb_sizes if n < 3 else sb_sizes[:6], repeat=n):
                sb.append(tuple(zip(chans, sizes)))
    for part in split(ctx.order(sb), J):
        tasks.append(("sideband", part, None))
    # (e2) the report-status answer cut into 1..3 side-band data packets at every inner offset, x progress packets in between
    rep = []
    for ridx, report in enumerate(REPORTS):
        n = sum(4 + len(x) for x in report) + 4
        rep.append((ridx, (), 0, False))
        cs = [()] + [(c,) for c in range(1, n)] + (list(itertools.combinations(range(1, n), 2)) if (not q or n <= 40) else
                                                    [(a, b_) for a in range(1, n, 3) for b_ in range(a + 1, n, 5)])
        for cuts in cs:
            for mask in range(1 << (len(cuts) + 1)) if len(cuts) < 2 else (0, 2, 7):
                rep.append((ridx, cuts, mask, True))
    for part in split(ctx.order(rep), J):
        tasks.append(("report", part, None))
    # (f)
    data, _ = _small_pack()
    L = len(data)
    cs = [()] + [(c,) for c in range(1, L)] + list(itertools.combinations(range(1, L), 2))
    cs += [tuple(range(k, L, k)) for k in range(1, 26)]
    if not q:
        tailpos = range(max(1, L - 26), L)
        cs += [c for c in itertools.combinations(range(1, L), 3) if c[1] in tailpos]
    zbufs = (1, 7, 4096)
    for part in split(ctx.order(cs), J * 2):
        tasks.append(("packstream", part, zbufs))
    # (g)
    names = [b"".join(t) for n in (1, 2, 3) for t in itertools.product(CAP_ALPHA, repeat=n)]
    # interior (never leading/trailing) non-space whitespace is legal capability content
    names += [b"a\tb", b"a\rb", b"a\x0bb", b"a\x0cb", b"agent=x\ty"]
    caps_items = []
    refs = [b"refs/heads/a", b"HEAD", b"refs/heads/\xc3\xa9:="]
    for rn in refs:
        caps_items.append((rn, None))
        for c in names:
            caps_items.append((rn, (c,)))
    short = [b"".join(t) for n in (1, 2) for t in itertools.product(CAP_ALPHA, repeat=n)] + [b"a\tb", b"a\x0cb"]
    for a, b in itertools.product(short, repeat=2):
        caps_items.append((refs[0], (a, b)))
    if not q:
        for t in itertools.product(short[:12], repeat=3):
            caps_items.append((refs[0], t))
    for part in split(caps_items, J):
        tasks.append(("caps", part, None))

    tasks = ctx.order(tasks)
    pmap_acc(work, tasks, ctx.acc, jobs=ctx.jobs)

    n = ctx.acc.n
    total = sum(v for k, v in n.items() if k.endswith("_cases"))
    ctx.level = "exploration"
    ctx.coverage.update(
        evaluations=total,
        distinct_nontrivial=len([c for c in ctx.acc.classes if not c.endswith(":ok")]),
        rule=(
            "E4 bounded-exhaustive: frame sequences of <=%d frames over %r x every partition of the encoded stream "
            "(all 2^(L-1) partitions for L<=%d, all partitions with <=%d cuts above) x {ReceivableProtocol, PktLineParser}; "
            "Protocol with every eof()/unread mask; pkt-lines + raw tail under every read/recv op mix; all 65536 hex "
            "prefixes x {exact,short,long,empty} bodies; all 4-byte prefixes over %r x 3 bodies; encoder sizes %r; "
            "side-band 3 channels; PackStreamReader under all 0/1/2-cut chunkings x zlib_bufsize {1,7,4096}; capability "
            "lines. distinct_nontrivial = distinct observed outcome classes other than plain success."
            % (3 if q else 4, [repr(f) for f in FRAME_ALPHA], full_max, cut_max, [a.decode("latin1") for a in ROBUST_ALPHA], ENC_SIZES)
        ),
        exhaustive=True,
        bounds={"frames": 3 if q else 4, "full_partition_len": full_max, "max_cuts_above": cut_max, "pack_len": L},
    )
    ctx.assumptions += [
        "reference framing codec engines/refmodels/pktline.py written from protocol-common.txt",
        "Protocol(read=...) callers supply a blocking read(n) (file-like); chunking applies to recv-based readers",
        "PktLineParser is not required to understand delim-pkt (0001); it may reject it with GitProtocolError",
    ]


def replay(ctx, obj):
    import sys

    return replay_generic(sys.modules[__name__], ctx, obj)
