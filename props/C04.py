"""C04 — corrupt or hostile input is contained; failed ingestion leaves no trace.

Engines: E5 `mutfault` (every truncation, every single-bit flip, every byte := 00/FF/+1/-1, every
appended tail, every splice at object boundaries of small valid artefacts) + grammar-aware attacks
(`engines/hostile.py`: object count, trailer, OFS offsets, REF-delta cycles, zlib streams, size
headers, bombs, unparsable payloads) + E6 `sandbox` (every case runs in a long-lived rlimit-ed child;
kills, hangs and memory growth are attributed to the exact input) + E2 `crashfs` (an I/O error
injected at every interposed file-system call of every disk ingestion path).

Families (see engines/hostile.py for the sandbox side):

  ingest   mutant stream -> {add_pack()+commit(), add_thin_pack, add_pack_data, ReceivePackHandler}
           x {DiskObjectStore, MemoryObjectStore}; add_thin_pack / receive-pack also under every
           2-chunk split of the stream through recv()
  stream   mutant stream -> PackStreamReader.read_objects / PackStreamCopier.verify, whole and under
           every 2-chunk split
  pair     damaged .pack or .idx (v1, v2, v3) of an on-disk pair, and crafted pack + forged idx ->
           Pack: len/iter/in, get_raw, iterobjects, check; DiskObjectStore: iter, in, get_raw
  loose / index / prefs / cgraph / midx / bitmap   damaged file -> its readers
  fault    valid stream, OSError injected at step i of the disk ingestion -> store unchanged or success

Oracle (each clause a phrase of the statement):
  (1) "terminates promptly": CPU limit of the sandbox (2 s + slack) never hit, < 2 s CPU measured, growth of the
      process below 64 MiB + 8 x (legitimate inflated size);
  (2) "fails with an ordinary error": subclass of Exception other than RecursionError / MemoryError; no signal, no exit;
  (3) "or yields data that is self-consistent: every object ... hashes to the name it is stored under": after a
      successful ingestion every id the store lists is re-hashed by the harness (live store and a freshly opened
      one) and every installed pack reads the same by offset and by iteration; an object returned *by name*
      from a damaged file (ShaFile.from_path(path, sha), Pack.get_raw, DiskObjectStore.get_raw) hashes to that name;
  (4) "a failed ingestion leaves the object store observably unchanged": sorted(store), `id in store` for the
      store's ids and for the ids the pack would have delivered, the set of pack/idx pairs and of loose files are
      equal before/after, live and fresh; left-over temp files are allowed (outcome class only).
"""

from __future__ import annotations

import os
import pickle
import re
import sys

from engines import hostile as H
from engines import mutfault, sandbox
from engines.common import Acc, HarnessError, fresh_dir, pmap_acc, replay_generic, rp, scratch_root

SETUP = "engines.hostile:sb_setup"
CASE = "engines.hostile:sb_case_timed"
OPTS = {"wall_s": 120, "cpu_s": 2, "max_timeouts": 4}
PROMPT_CPU_S = 2.0
MEM_BASE_KIB = 64 * 1024

STORES = ("disk", "mem")
PATHS = ("add_pack", "add_thin_pack", "add_pack_data", "receive-pack")
EXTRA_PATHS = (("disk", "bundle.store_objects"), ("mem", "bundle.store_objects"), ("disk", "unpack_objects"))
FAMILY_OF = {"pair": "pair", "loose": "loose", "index": "index", "packed-refs": "prefs", "cgraph": "cgraph", "midx": "midx", "bitmap": "bitmap"}

_SEEDS = None
_SEEDFILE = None


# --------------------------------------------------------------------------- seeds


def seeds():
    """Build the seed table once per run (parent) and publish it to the sandboxes through a file."""
    global _SEEDS, _SEEDFILE
    if _SEEDS is None:
        path = os.environ.get("VERIF_C04_SEEDS")
        if path and os.path.exists(path):
            with open(path, "rb") as f:
                _SEEDS = pickle.load(f)
            _SEEDFILE = path
        else:
            d = fresh_dir("c04seeds")
            _SEEDS = H.build_seeds(d)
            _SEEDFILE = os.path.join(d, "seeds.pickle")
            with open(_SEEDFILE, "wb") as f:
                pickle.dump(_SEEDS, f, protocol=pickle.HIGHEST_PROTOCOL)
            os.environ["VERIF_C04_SEEDS"] = _SEEDFILE
    return _SEEDS


def pool(flavour):
    seeds()
    scratch = os.path.join(scratch_root(), "sb-%s" % flavour)
    os.makedirs(scratch, exist_ok=True)
    return sandbox.get_pool(flavour, setup=SETUP, setup_arg={"seeds": _SEEDFILE, "scratch": scratch})


# --------------------------------------------------------------------------- input classes (for keys)


def _norm(s):
    return re.sub(r"[0-9]+", "N", s)


def input_class(case):
    """Stable class of the damage, used in keys of failures that have no better predicate:
    the attack family, or the region of the artefact the single fault touches."""
    family, seed, mut, variant = case
    S = seeds()
    if mut is None:
        if ":" not in seed:
            return "valid-" + _norm(seed)
        name = seed.split(":", 1)[1]
        if "cycle" in name:
            return "delta-chain-into-cycle" if "tail" in name else "delta-cycle"
        return _norm(name)
    kind = mut[0]
    if kind == mutfault.APPEND:
        return "appended-tail"
    if kind == mutfault.SPLICE:
        return "splice"
    if family in ("ingest", "stream"):
        spans = S["streams"][seed]["spans"]
    else:
        spans = S["files"][seed].get("spans", {}).get(variant[0] if variant else None, [])
    lab = mutfault.label(mut, spans) if spans else "byte"
    lab = re.sub(r"^[a-z0-9]+:", "entry-", lab) if ":" in lab else lab
    return "%s@%s" % ("truncated" if kind == mutfault.TRUNCATE else "flipped", lab)


def legit(case):
    family, seed, mut, variant = case
    S = seeds()
    if family in ("ingest", "stream"):
        st = S["streams"][seed]
        return st.get("legit", 0), len(st["data"])
    f = S["files"][seed]
    return f.get("legit", S["streams"].get(seed[5:], {}).get("legit", 0) if seed.startswith("pair.") else 0), sum(len(x) for x in f["dir"].values())


# --------------------------------------------------------------------------- judging


def describe(case):
    family, seed, mut, variant = case
    return "%s %s%s %s" % (family, seed, "" if mut is None else " " + repr(tuple(mut)), "" if variant is None else repr(tuple(variant)))


def judge(acc: Acc, flavour, case, obs, replay, sub=False):
    """Merge what the child saw with what only the parent can see (death, hang, growth)."""
    site = H.site_of(case)
    fl = "" if flavour == "rust" else "[%s]" % flavour
    acc.count("attribution_reruns" if sub else "cases")
    if not sub:
        acc.count("cases:" + case[0])
    if obs.kind == "skipped":
        acc.count("skipped_after_timeouts")
        acc.outcome("%s:skipped-after-timeouts" % site)
        return "skipped"
    if obs.kind in ("timeout", "sig", "exit"):
        pred = {"timeout": "does-not-terminate", "sig": "killed-%s" % obs.value, "exit": "process-exited"}[obs.kind]
        acc.outcome("%s:%s" % (site, pred))
        return pred  # attributed (per operation) by the caller
    if obs.kind == "exc":  # the sandbox-side harness itself failed
        raise HarnessError("sandbox function failed on %s: %r" % (describe(case), obs.value))
    classes, viol, cpu = obs.value
    for c in classes:
        acc.outcome(c + fl)
    for key, summary in viol:
        if ":non-ordinary-exception:" in key:
            key += ":" + input_class(case)
        acc.violation(key, summary + ("  [pure-Python build]" if flavour == "py" else ""), replay)
    lg, size = legit(case)
    bound = PROMPT_CPU_S + lg / float(2 << 20)  # + 1 s per 2 MiB of data the input legitimately inflates to
    if cpu > bound:
        acc.violation("%s:not-prompt:%s" % (site, input_class(case)), "%s used more than %.0f s of CPU (statement: terminates promptly)" % (
            describe(case), bound), replay)  # no measured number in the summary: replays compare summaries
    allow = MEM_BASE_KIB + (8 * lg + 4 * size) // 1024
    if obs.vm_kib is not None and max(obs.vm_kib, obs.rss_kib) > allow:
        acc.outcome("%s:memory-out-of-proportion" % site)
        acc.violation("%s:memory-out-of-proportion:%s" % (site, input_class(case)),
                      "%s grew the process (%s) by more than %d MiB for %d bytes of input" % (
                          describe(case), "resident" if obs.rss_kib > allow else "address space reserved", allow >> 10, size), replay)
    return None


def per_op_cases(case):
    """Split a multi-operation reading case into one case per operation (to attribute a death)."""
    family, seed, mut, variant = case
    if family == "pair" and variant[1] is None:
        return [(family, seed, mut, (variant[0], (op,))) for op in H.PAIR_OPS]
    if family == "loose" and variant[1] is None:
        return [(family, seed, mut, (variant[0], (op,))) for op in H.LOOSE_OPS]
    return None


def evaluate(acc: Acc, flavour, cases, depth=0, attack=False):
    p = pool(flavour)
    opts = dict(OPTS)
    if attack or depth:
        opts.pop("max_timeouts")  # the circuit breaker is for thousands of similar mutants, not for distinct attacks
        opts["cpu_s"] = 10  # the attacks include honest 16 MiB objects
    res = p.map_observe(CASE, cases, **opts)
    for case, obs in zip(cases, res):
        replay = rp(case_one, flavour, list(case))
        pred = judge(acc, flavour, case, obs, replay, sub=depth > 0)
        if pred in (None, "skipped"):
            continue
        sub = per_op_cases(case) if depth == 0 else None
        if sub:
            evaluate(acc, flavour, sub, depth + 1)
            continue
        acc.violation("%s:%s:%s" % (H.site_of(case), pred, input_class(case)),
                      "%s -> %s %s%s" % (describe(case), obs.kind, obs.value, "  [pure-Python build]" if flavour == "py" else ""), replay)


def case_one(acc: Acc, flavour, case):
    """Replay entry: one case in a fresh sandbox worker."""
    case = (case[0], case[1], tuple(case[2]) if case[2] is not None else None, _tup(case[3]))
    evaluate(acc, flavour, [case], attack=True)


def _tup(v):
    if v is None:
        return None
    return tuple(tuple(x) if isinstance(x, list) else x for x in v)


# --------------------------------------------------------------------------- enumeration


def stream_muts(S, seed, tier_q):
    """All E5 descriptors of a stream seed: truncations, byte sets, bit flips, tails, splices."""
    st = S["streams"][seed]
    data = st["data"]
    out = [None]
    out += list(mutfault.descriptors(data, kinds=(mutfault.TRUNCATE, mutfault.BYTESET, mutfault.BITFLIP, mutfault.APPEND), tails=H.TAILS))
    for other in sorted(H.STREAMS):
        for a in st["bounds"]:
            for b in S["streams"][other]["bounds"]:
                if other == seed and a == b:
                    continue
                out.append((mutfault.SPLICE, a, b, other))
    return out


def file_muts(data):
    return list(mutfault.descriptors(data, kinds=(mutfault.TRUNCATE, mutfault.BYTESET, mutfault.BITFLIP, mutfault.APPEND), tails=H.TAILS[:3]))


def build_tasks(ctx):
    S = seeds()
    q = ctx.quick
    groups = []  # (name, flavour, [cases])
    bounds = {}

    def add(name, flavours, cases):
        cases = list(cases)
        bounds[name] = bounds.get(name, 0) + len(cases) * len(flavours)
        for fl in flavours:
            groups.append((name, fl, cases))

    both = ("rust", "py")
    stream_seeds = ["thin", "ofs2", "full3"]  # smallest first
    attacks = sorted(k for k in S["streams"] if k.startswith("atk:"))
    small_attacks = [k for k in attacks if len(S["streams"][k]["data"]) <= 400]
    if q:  # quick: of the 32 size-header lies only "declared = real - 1" (the case the per-call inflation bound cannot see) under every split
        small_attacks = [k for k in small_attacks if "sizelie" not in k or k.endswith("-1")]
    # ---- ingest: every mutant of every seed through every path of every store
    for seed in stream_seeds:
        muts = stream_muts(S, seed, q)
        fls = both if (not q or seed != "full3") else ("rust",)
        for kind in STORES:
            for path in PATHS:
                add("ingest:%s" % seed, fls, [("ingest", seed, m, (kind, path, None)) for m in muts])
        add("stream:%s" % seed, fls, [("stream", seed, m, (w, None)) for m in muts for w in ("PackStreamReader", "PackStreamCopier")])
    for kind in STORES:
        for path in PATHS:
            add("ingest:attacks", both, [("ingest", a, None, (kind, path, None)) for a in attacks])
    add("stream:attacks", both, [("stream", a, None, (w, None)) for a in attacks for w in ("PackStreamReader", "PackStreamCopier")])
    # two more ways in which dulwich itself ingests a pack somebody handed over (valid seeds and attacks only)
    for kind, path in EXTRA_PATHS:
        add("ingest:attacks", both, [("ingest", a, None, (kind, path, None)) for a in stream_seeds + attacks])
    # a bomb behind every chunk boundary of the first 64 bytes of its zlib stream (the per-call inflation bound is "declared + 1")
    for a in attacks:
        if not a.startswith("atk:bomb-") or "honest" in a:
            continue
        st = S["streams"][a]
        z0 = [b_ for b_, e, lab in st["spans"] if lab.endswith(":zlib")][-1]  # start of the (last) entry's zlib stream
        cs = []
        for c in range(z0 + 1, z0 + 65):
            cs += [("stream", a, None, (w, c)) for w in ("PackStreamReader", "PackStreamCopier")]
            cs += [("ingest", a, None, (k, "add_thin_pack", c)) for k in STORES]
            cs.append(("ingest", a, None, ("disk", "receive-pack", c)))
        add("split:bomb-attacks", ("rust",), cs)
    # ---- every 2-chunk split through recv
    for seed in stream_seeds + small_attacks:
        L = len(S["streams"][seed]["data"])
        cuts = range(1, L)
        add("split:stream", ("rust",), [("stream", seed, None, (w, c)) for c in cuts for w in ("PackStreamReader", "PackStreamCopier")])
        add("split:ingest", ("rust",), [("ingest", seed, None, (k, "add_thin_pack", c)) for c in cuts for k in STORES])
        if not q or seed in stream_seeds:
            add("split:receive-pack", ("rust",), [("ingest", seed, None, (k, "receive-pack", c)) for c in cuts for k in STORES])
    if not q:  # truncated streams under every split (a short read meeting a chunk boundary)
        for seed in stream_seeds:
            data = S["streams"][seed]["data"]
            cs = []
            for k in range(1, len(data)):
                for c in range(1, k):
                    cs.append(("stream", seed, (mutfault.TRUNCATE, k, None), ("PackStreamCopier", c)))
                    cs.append(("ingest", seed, (mutfault.TRUNCATE, k, None), ("disk", "add_thin_pack", c)))
            add("split:truncated", ("rust",), cs)
    # ---- damaged files
    for seed in sorted(S["files"]):
        f = S["files"][seed]
        fam = FAMILY_OF[seed.split(".")[0]]
        fls = both if (not q or fam in ("pair", "loose")) else ("rust",)
        if not f["targets"]:  # crafted, complete artefacts: one case per operation (a bomb per operation, not per case)
            ops = {"pair": H.PAIR_OPS, "loose": H.LOOSE_OPS}.get(fam)
            if ops:
                add("%s:attacks" % fam, both, [(fam, seed, None, (None, (op,))) for op in ops])
            else:
                add("%s:attacks" % fam, both, [(fam, seed, None, (None, None))])
            continue
        if q and seed in ("cgraph.git", "midx.git", "bitmap.git"):
            continue  # quick: the dulwich-written variant only
        add("%s:%s" % (fam, seed), fls, [(fam, seed, None, (None, None))])
        for target, rel in sorted(f["targets"].items()):
            data = f["dir"][rel]
            if q and fam == "pair" and target == "idx" and seed != "pair.v2":
                continue  # quick: the idx of one version only (v1/v3 differ in header and layout; thorough does all)
            tf = ("rust",) if (q and fam == "pair" and target == "idx") else fls
            add("%s:%s" % (fam, seed), tf, [(fam, seed, m, (target, None)) for m in file_muts(data)])
    return groups, bounds


def work(task):
    """One unit: a slice of one group in one flavour.  Harness failures travel home in the Acc."""
    acc = Acc()
    try:
        name, flavour, cases = task
        evaluate(acc, flavour, cases, attack="attacks" in name)
    except Exception as e:
        import traceback

        acc = Acc()
        acc.note("harness_error", "%r in task %r\n%s" % (e, repr(task)[:200], traceback.format_exc()))
    return acc


# --------------------------------------------------------------------------- fault sequences (E2)

FAULT_PATHS = (("add_pack", "full3"), ("add_pack", "ofs2"), ("add_thin_pack", "thin"), ("add_thin_pack", "full3"),
               ("add_pack_data", "full3"), ("receive-pack", "thin"), ("receive-pack", "full3"))


def _fault_setup(path):
    def setup(root):
        H._write_tree(os.path.join(root, "objects"), seeds()["base_store"])
        os.makedirs(os.path.join(root, "objects", "info"), exist_ok=True)
        if path == "receive-pack":
            H._write_tree(root, {"HEAD": b"ref: refs/heads/main\n",
                                 "config": b"[core]\n\trepositoryformatversion = 0\n\tfilemode = true\n\tbare = true\n"})
            os.makedirs(os.path.join(root, "refs", "heads"))
            os.makedirs(os.path.join(root, "refs", "tags"))
    return setup


class _FaultRun:
    """State shared between the operation (runs under the interposer) and the judge."""

    def __init__(self):
        self.store = None
        self.repo = None
        self.result = None


def _fault_op(path, seed, fr):
    import tempfile

    S = seeds()
    H.local_setup(S, scratch_root())
    st = S["streams"][seed]

    def op(root):
        from dulwich.object_store import DiskObjectStore

        tempfile._name_sequence = H._DetNames()
        objdir = os.path.join(root, "objects")
        if path == "receive-pack":
            from dulwich.repo import Repo

            fr.repo = Repo(root)
            fr.store = fr.repo.object_store
        else:
            fr.store = DiskObjectStore(objdir)
        fr.result = H._ingest_op(fr.store, path, st["data"], None, fr.repo, st["names"][-1])()
        return None
    return op


def _observe_root(root, store, probe):
    from dulwich.object_store import DiskObjectStore

    objdir = os.path.join(root, "objects")
    out = {"listing": H._listing(objdir)}
    if store is not None:
        out["live"] = H.observe_store(store, probe)
    try:
        fresh = DiskObjectStore(objdir)
        out["fresh"] = H.observe_store(fresh, probe)
        out["fresh_store"] = fresh
    except Exception as e:
        out["fresh"] = {"ids": "open raises " + type(e).__name__, "contains": []}
        out["fresh_store"] = None
    return out


def _fault_one(acc, en, path, seed, steps, idx, kind):
    from engines import crashfs

    S = seeds()
    st = S["streams"][seed]
    probe = H.STORE_IDS + [n for n in st["names"] if n not in H.STORE_IDS]
    site = "fault:disk.%s" % path
    fr = _FaultRun()
    root = en.fresh()
    before_listing = H._listing(os.path.join(root, "objects"))
    ctl, outcome = crashfs.run_op(root, _fault_op(path, seed, fr), fault_at=idx, fault_kind=kind, all_ops=True)
    if not ctl.injected:
        raise HarnessError("fault site %d not reached in %s(%s)" % (idx, path, seed))
    step = steps[idx]
    where = "%s at step %d/%d (%s %s) of %s(%s)" % (kind, idx, len(steps), step[0], _anon(step[1]), path, seed)
    failed = outcome[0] != "ok"
    why = "ok" if not failed else outcome[1].split(":")[0]
    if path == "receive-pack" and not failed:
        status = H._report_status(fr.result or b"")
        if status != b"ok":
            failed, why = True, "unpack-error-reported" if status else "no-report"
    acc.count("fault_executions")
    acc.outcome("%s:%s:%s" % (site, step[0], "rejected:" + why if failed else "completed"))
    replay = rp(case_fault, path, seed, idx, kind)
    if failed and why == "KeyboardInterrupt":
        raise HarnessError("unexpected KeyboardInterrupt")
    now = _observe_root(root, fr.store, probe)
    v = H.Verdict(site)
    if failed:
        for label in ("live", "fresh"):
            obs = now.get(label)
            if obs is None:
                continue
            if obs["ids"] != sorted(H.STORE_IDS):
                if isinstance(obs["ids"], str):
                    v.bad("store-unusable-after-failure", "%s: %s store %s" % (where, label, obs["ids"]))
                else:
                    new = sorted(set(obs["ids"]) - set(H.STORE_IDS))
                    lost = sorted(set(H.STORE_IDS) - set(obs["ids"]))
                    v.bad("new-object-visible-after-failure" if new else "object-lost-after-failure",
                          "%s failed with %s but the %s store now lists new %r lost %r" % (where, why, label, [n[:10] for n in new], [n[:10] for n in lost]))
            elif obs["contains"][:len(H.STORE_IDS)] != [True] * len(H.STORE_IDS) or any(x is not False for x in obs["contains"][len(H.STORE_IDS):]):
                v.bad("membership-changed-after-failure", "%s failed with %s but `id in store` on the %s store is %r" % (where, why, label, obs["contains"]))
        if now["listing"][0] != before_listing[0]:
            v.bad("pack-installed-after-failure", "%s failed with %s but objects/pack holds the pairs %r" % (where, why, [p[:17] for p in now["listing"][0]]))
        if now["listing"][1] != before_listing[1]:
            v.bad("loose-objects-changed-after-failure", "%s failed with %s but the loose files are %r" % (where, why, now["listing"][1]))
    else:
        for label, s in (("live", fr.store), ("fresh", now["fresh_store"])):
            if s is None:
                continue
            H.check_objects(v, s, "%s: ingestion reported success; %s store" % (where, label), site)
            H.check_packs(v, s, "%s: ingestion reported success; %s store" % (where, label), site)
        # success must mean the objects are there
        obs = now["fresh"]
        if isinstance(obs["ids"], list) and not set(st["names"]) <= set(obs["ids"]):
            v.bad("success-reported-but-objects-missing", "%s: ingestion reported success but a fresh store lacks %r" % (
                where, [n[:10] for n in st["names"] if n not in obs["ids"]]))
    for key, summary in v.viol:
        acc.violation(key, summary, replay)
    for s in (now.get("fresh_store"), fr.store, fr.repo):
        H._close(s)


def _anon(rel):
    return re.sub(r"pack-[0-9a-f]{40}", "pack-<id>", rel)


def _fault_baseline(en, path, seed):
    from engines import crashfs

    fr = _FaultRun()
    root = en.fresh()
    ctl, outcome = crashfs.run_op(root, _fault_op(path, seed, fr), all_ops=True)
    H._close(fr.store)
    H._close(fr.repo)
    if outcome[0] != "ok":
        raise HarnessError("fault-free %s(%s) failed: %r" % (path, seed, outcome))
    return list(ctl.steps)


def case_fault(acc, path, seed, idx, kind):
    from engines import crashfs

    en = crashfs.Enumerator(_fault_setup(path))
    try:
        steps = _fault_baseline(en, path, seed)
        _fault_one(acc, en, path, seed, steps, idx, kind)
    finally:
        en.close()


def work_fault(task):
    from engines import crashfs, fsint

    acc = Acc()
    try:
        path, seed, kinds = task
        en = crashfs.Enumerator(_fault_setup(path))
        try:
            steps = _fault_baseline(en, path, seed)
            acc.count("fault_scenarios")
            acc.count("fault_sites", len(steps))
            acc.sample({"fault_scenario": "%s(%s)" % (path, seed), "steps": len(steps),
                        "first_steps": [[s[0], _anon(s[1])] for s in steps[:10]]}, cap=3)
            for i, step in enumerate(steps):
                ks = kinds if step[0] in fsint.MUTATING else kinds[:1]
                for kind in ks:
                    _fault_one(acc, en, path, seed, steps, i, kind)
        finally:
            en.close()
        bad = fsint.uninterposed()
        if bad:
            raise HarnessError("file-system access that bypassed the interposer: %r" % bad[:5])
    except Exception as e:
        import traceback

        acc = Acc()
        acc.note("harness_error", "%r in fault task %r\n%s" % (e, task, traceback.format_exc()))
    return acc


# --------------------------------------------------------------------------- run


def run(ctx):
    from engines import common

    q = ctx.quick
    common.rust_paths()  # build once, before the workers fork
    S = seeds()
    info = {fl: pool(fl).info for fl in ("rust", "py")}
    for fl, i in info.items():
        if not i.get("setup"):
            raise HarnessError("sandbox %s did not load the seeds" % fl)
    sandbox.drop_pools()
    groups, bounds = build_tasks(ctx)
    tasks = []
    for name, fl, cases in groups:
        n = max(1, len(cases) // (3 if "attacks" in name else 600))
        for part in (cases[i::n] for i in range(n)):
            if part:
                tasks.append((name, fl, part))
    # heavy first (bombs), then by VERIF_SEED
    heavy = [t for t in tasks if "attacks" in t[0]]
    rest = [t for t in tasks if "attacks" not in t[0]]
    tasks = heavy + ctx.order(rest)
    t0 = ctx.elapsed()
    pmap_acc(work, tasks, ctx.acc, jobs=ctx.jobs)
    t1 = ctx.elapsed()
    if "harness_error" in ctx.acc.notes:
        raise HarnessError(ctx.acc.notes["harness_error"])
    ftasks = [(p, s, ["EIO", "ENOSPC"] if not q else ["EIO"]) for p, s in FAULT_PATHS]
    pmap_acc(work_fault, ftasks, ctx.acc, jobs=ctx.jobs)
    if "harness_error" in ctx.acc.notes:
        raise HarnessError(ctx.acc.notes["harness_error"])
    t2 = ctx.elapsed()

    n = ctx.acc.n
    classes = ctx.acc.classes
    want = sum(bounds.values())
    if n.get("cases", 0) != want:
        raise HarnessError("enumeration incomplete: %d cases judged, %d generated" % (n.get("cases", 0), want))
    # ---- vacuity guards: the interesting outcomes really occur
    must = [
        "ingest:disk.add_pack:accepted", "ingest:disk.add_thin_pack:accepted", "ingest:disk.add_pack_data:accepted",
        "ingest:disk.receive-pack:accepted", "ingest:mem.add_pack:accepted", "ingest:mem.add_thin_pack:accepted",
        "ingest:mem.receive-pack:accepted", "ingest:disk.add_thin_pack:rejected:ChecksumMismatch",
        "ingest:disk.add_thin_pack:rejected:UnresolvedDeltas", "ingest:disk.add_pack:rejected:ApplyDeltaError",
        "ingest:disk.receive-pack:rejected:unpack-error-reported", "stream:PackStreamReader:accepted",
        "stream:PackStreamReader:rejected:ChecksumMismatch", "read:pack:check:ok", "read:pack:check:raises:ChecksumMismatch",
        "read:pack:get_raw:ok", "read:loose:ShaFile.from_path:ok", "read:index:Index.read:ok", "read:packed-refs:get_packed_refs:ok",
        "read:commit-graph:read_commit_graph:ok", "read:midx:load_midx:ok", "read:bitmap:read_bitmap:ok",
    ]
    for m in must:
        if not classes.get(m):
            if ":rejected:" in m or ":raises:" in m:
                # dulwich no longer rejects what it used to reject: that is a matter for the oracle (the accepted
                # inputs are judged), not a defect of the harness — unless nothing at all was found
                if ctx.acc.viol:
                    ctx.coverage.setdefault("expected_rejections_missing", []).append(m)
                    continue
            raise HarnessError("vacuous run: outcome class %r never occurred" % m)
    if not any(c.startswith("fault:") and c.endswith(":completed") for c in classes) or \
       not any(c.startswith("fault:") and ":rejected:" in c for c in classes):
        raise HarnessError("vacuous fault enumeration")
    ctx.level = "fault_enumeration"
    skipped = n.get("skipped_after_timeouts", 0)
    nontrivial = [c for c in classes if not c.endswith((":accepted", ":ok", ":completed"))]
    ctx.coverage.update(
        evaluations=n.get("cases", 0) + n.get("fault_executions", 0),
        distinct_nontrivial=len(nontrivial),
        exhaustive=not skipped,
        rule=("E5+E6+E2. Every single-fault mutant (each truncation point, each bit flipped, each byte := 00/FF/+1/-1, each appended tail, "
              "each splice of two valid streams at object boundaries) of each seed artefact, plus %d grammar-aware attack streams and %d crafted "
              "files, fed to every reading / ingestion path listed in bounds.groups, each case inside a sandboxed child (RLIMIT_AS 2 GiB, "
              "CPU limit, watchdog) and judged by the four clauses of the statement; streams additionally under every 2-chunk split through "
              "recv(); then an OSError injected at every interposed file-system call of %d disk ingestion scenarios. evaluations = cases "
              "judged + fault executions; distinct_nontrivial = outcome classes other than plain success."
              % (len([k for k in S["streams"] if k.startswith("atk:")]), len([k for k, f in S["files"].items() if not f["targets"]]), len(FAULT_PATHS))),
        bounds={"groups": dict(sorted(bounds.items())),
                "seed_sizes": {k: len(v["data"]) for k, v in S["streams"].items() if not k.startswith("atk:")},
                "file_sizes": {k: {t: len(f["dir"][rel]) for t, rel in f["targets"].items()} for k, f in S["files"].items() if f["targets"]},
                "flavours": "rust = extensions rebuilt from the working tree; py = extension imports blocked",
                "cpu_limit_s": OPTS["cpu_s"], "prompt_cpu_s": PROMPT_CPU_S, "memory_allowance": "64 MiB + 8 x legitimate inflated size + 4 x input size",
                "fault_kinds": ftasks[0][2]},
        outcome_classes=dict(sorted(classes.items())),
        phases_wall_s={"seeds+tasks": round(t0, 1), "mutants": round(t1 - t0, 1), "faults": round(t2 - t1, 1)},
        implementations={fl: {k: v for k, v in i.items() if k in ("apply_delta", "bisect_find_sha", "ext", "dulwich")} for fl, i in info.items()},
    )
    if skipped:
        ctx.coverage["cap"] = "%d sandbox calls skipped by the timeout circuit breaker (%d timeouts per batch)" % (skipped, OPTS["max_timeouts"])
    ctx.acc.sample({"first_case": ["ingest", "thin", None, ["disk", "add_pack", None]],
                    "a_mutant": ["ingest", "full3", ["bitflip", 12, 4], ["mem", "add_thin_pack", None]],
                    "an_attack": ["pair", "pair.atk:ref-2-cycle-only", None, [None, None]],
                    "a_split": ["stream", "ofs2", None, ["PackStreamCopier", 57]]})
    ctx.assumptions += [
        "seed streams are accepted by C git 2.39.5 (index-pack --fix-thin) and the on-disk pair by git verify-pack; idx v1/v2 written by "
        "dulwich are byte-identical to an independent builder's; commit-graph / multi-pack-index / bitmap seeds exist in a dulwich-written "
        "and a git-written variant",
        "an 'ordinary error' is any subclass of Exception except RecursionError and MemoryError; AssertionError counts as ordinary (python -O is not modelled)",
        "left-over temp files (tmp_pack_*, tmpXXXX.pack, a renamed pack without idx) are allowed; what is demanded is that neither the live nor a "
        "freshly opened store shows anything new after a failure",
        "an object returned *by name* from a damaged file must hash to that name (clause 3 applied to reading); for crafted pack/idx pairs whose "
        "index names are the attacker's this is recorded as an outcome class only",
        "CPU-time limit instead of a wall-clock watchdog decides 'terminates promptly' (robust under machine load); the wall clock (120 s) only catches sleeping hangs",
        "fault model: one OSError (EIO; thorough also ENOSPC at mutating calls) per execution, at any interposed call (open/stat/listdir/read-open included); "
        "reads and mmap accesses of already opened files cannot fail",
        "tempfile names made deterministic (tempfile._name_sequence) so that fault step numbering is stable",
    ]


def replay(ctx, obj):
    from engines import common

    common.rust_paths()
    seeds()
    return replay_generic(sys.modules[__name__], ctx, obj)
