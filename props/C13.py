"""C13 — merge-base, ancestry / fast-forward, independence and history walks are exact on every
commit DAG and every assignment of commit timestamps.

Bounded-exhaustive enumeration (engine E4, engines/enumerate.py):

  timed graph  = (DAG in topological numbering, weak ordering of the commit timestamps)
  every timed graph is materialised as real ``Commit`` objects in a ``MemoryRepo`` (commit_time
  carries the enumerated rank pattern, author_time carries the *opposite* pattern so that a use of
  the wrong clock is visible) and interrogated through the public API:

  (g) dulwich.graph.can_fast_forward / find_merge_base / find_octopus_base / independent for all
      query tuples of the profile (all ordered pairs, triples, ...),
  (w) repo.get_walker(include, exclude, order, reverse, max_entries, since, until) for every
      include set (<=2 tips), exclude set (<=1/2 tips) and option row of the profile,
  (d) "deep" two-chain histories with 7 (quick) / 8 (thorough) commits under monotone clocks, so
      that the walker's cut-off slop (_MAX_EXTRA_COMMITS) is actually exhausted,
  (x) the same histories written as loose objects into one scratch C-git repository per worker
      (identical object ids): `git merge-base --all / --octopus --all / --is-ancestor /
      --independent`, `git rev-list [--topo-order] [--max-age/--min-age]` validate the reference
      model (disagreement = HarnessError) and the date-order of the walker is compared with git's
      where it is unambiguous; then C git writes a commit-graph and every query is repeated with
      dulwich's disk ``Repo`` (commit-graph active) and compared with the plain-store answers.

Oracle: engines/refmodels/dag.py — brute-force transitive closure on the explicit DAG, exactly as
the statement says (maximal common ancestors as a set; a ancestor-or-equal of b; walks yield each
reachable commit exactly once; exclusion / since / until / max_entries cut-offs are only required
to be *exact* when the timestamps are monotone along the edges, otherwise only *sound*; in topo
order never a parent before its child).
"""

from __future__ import annotations

import itertools
import os
import subprocess
import zlib

from engines import enumerate as E
from engines.common import Acc, HarnessError, fresh_dir, git, git_env, pmap_acc, replay_generic, rp, split
from engines.refmodels import dag as ref

BASE = 1_000_000_000  # commit_time of rank 0
STEP = 1000  # seconds between two adjacent timestamp ranks
N6_LEVELS = 2  # timestamp patterns at n=6: weak orderings with at most this many distinct levels


# --------------------------------------------------------------------------- materialisation


class TG:
    """One timed graph built in a MemoryRepo."""

    __slots__ = ("dag", "ranks", "repo", "ids", "node", "C", "clock", "t", "raw", "shaspec")


_MEMO = [None, None]
_TREE = [None]


def _norm(dag, ranks):
    return tuple(tuple(p) for p in dag), tuple(ranks)


def make_commits(dag, ranks, shaspec=()):
    """Real dulwich Commit objects for the timed graph (parents in the order given by dag).

    shaspec = ((tip, "hi"|"lo"), ...) makes the *object id order* an enumerated axis for childless
    commits: dulwich breaks timestamp ties by object id, so for a tip listed here the first message
    nonce is taken (deterministically: 1, 2, 3, ...) under which its id sorts after ("hi") / before
    ("lo") the ids of all other commits of the graph (tips listed later in shaspec excepted)."""
    from dulwich.objects import Commit, Tree

    if _TREE[0] is None:
        _TREE[0] = Tree()
    tree = _TREE[0]
    top = max(ranks) if ranks else 0
    commits = []
    for i, ps in enumerate(dag):
        c = Commit()
        c.tree = tree.id
        c.parents = [commits[p].id for p in ps]
        c.author = c.committer = b"V <v@example.com>"
        c.commit_time = BASE + STEP * ranks[i]
        c.author_time = BASE + STEP * (top - ranks[i])  # deliberately the opposite clock
        c.commit_timezone = c.author_timezone = 0
        c.message = b"c%d\n" % i
        commits.append(c)
    if shaspec:
        has_child = {p for ps in dag for p in ps}
        later = [t for t, _ in shaspec]
        for t, mode in shaspec:
            if t in has_child or mode not in ("hi", "lo"):
                raise HarnessError("shaspec wants a childless commit and hi|lo: %r" % (shaspec,))
            later.remove(t)
            others = [c.id for j, c in enumerate(commits) if j != t and j not in later]
            lo, hi = min(others), max(others)
            c = commits[t]
            for nonce in range(1, 100000):
                if (c.id > hi) if mode == "hi" else (c.id < lo):
                    break
                c.message = b"c%d #%d\n" % (t, nonce)
            else:
                raise HarnessError("no nonce found for %r" % (shaspec,))
    return tree, commits


def graph(dag, ranks, shaspec=()) -> TG:
    dag, ranks = _norm(dag, ranks)
    shaspec = tuple((int(t), str(m)) for t, m in shaspec)
    if _MEMO[0] == (dag, ranks, shaspec):
        return _MEMO[1]
    from dulwich.repo import MemoryRepo

    if len(dag) != len(ranks):
        raise HarnessError("dag/ranks length mismatch")
    for i, ps in enumerate(dag):
        if any(p >= i or p < 0 for p in ps) or len(set(ps)) != len(ps):
            raise HarnessError("not a DAG in topological numbering: %r" % (dag,))
    g = TG()
    g.dag, g.ranks, g.shaspec = dag, ranks, shaspec
    g.repo = MemoryRepo()
    tree, commits = make_commits(dag, ranks, shaspec)
    g.repo.object_store.add_object(tree)
    for c in commits:
        g.repo.object_store.add_object(c)
    g.ids = [c.id for c in commits]
    if len(set(g.ids)) != len(g.ids):
        raise HarnessError("commit ids collide")
    g.node = {cid: i for i, cid in enumerate(g.ids)}
    g.C = ref.closure(dag)
    g.t = [BASE + STEP * r for r in ranks]
    g.clock = ref.clock_class(dag, g.t)
    g.raw = None
    _MEMO[0], _MEMO[1] = (dag, ranks, shaspec), g
    return g


def _key(k):
    """Violation keys must survive the runner's 80-character file-name slug unambiguously."""
    if len(k) > 80:
        raise HarnessError("violation key too long: %r" % k)
    return k


def _desc(g: TG):
    return "dag=%s times=%s%s" % (
        " ".join("%d<-%s" % (i, ",".join(map(str, ps)) or "root") for i, ps in enumerate(g.dag)),
        list(g.ranks),
        "".join(" [id of c%d sorts %s]" % (t, "last" if m == "hi" else "first") for t, m in g.shaspec),
    )


def _nodes(g: TG, ids):
    """Map returned ids to node numbers; unknown ids become the string 'unknown:<hex>'."""
    out = []
    for x in ids:
        out.append(g.node.get(x, "unknown:%r" % (x,)))
    return out


# --------------------------------------------------------------------------- (g) graph queries


def _setcmp_predicate(got, want, universe_ok):
    """Classify got != want for set-valued answers. universe_ok = set of values that would at
    least be 'of the right kind' (e.g. common ancestors)."""
    extra = got - want
    missing = want - got
    if any(isinstance(x, str) for x in extra):
        return "unknown-id-returned"
    if extra - universe_ok:
        return "non-common-ancestor-returned"
    if missing:
        return "maximal-base-missing"
    return "non-maximal-base"


def _restricted_path(g: TG, a, b):
    """Is there a path b -> ... -> a (following parents) on which every commit strictly between
    is at least as new as a?  (If not, a can only be reached through a commit older than a.)"""
    thr = g.t[a]
    seen = {b}
    todo = [b]
    while todo:
        x = todo.pop()
        if x == a:
            return True
        for p in g.dag[x]:
            if p not in seen and (p == a or g.t[p] >= thr):
                seen.add(p)
                todo.append(p)
    return False


def case_cff(acc: Acc, dag, ranks, a, b):
    """can_fast_forward(repo, a, b)  <=>  a is b or an ancestor of b."""
    from dulwich.graph import can_fast_forward

    g = graph(dag, ranks)
    want = ref.is_ancestor(g.C, a, b)
    acc.count("q_can_fast_forward")
    try:
        got = can_fast_forward(g.repo, g.ids[a], g.ids[b])
    except Exception as e:
        acc.outcome("cff:raises")
        acc.violation("graph:can_fast_forward:raises-%s:%s-clock" % (type(e).__name__, g.clock),
                      "%s can_fast_forward(%d,%d) raised %r" % (_desc(g), a, b, e), rp(case_cff, dag, ranks, a, b))
        return None
    acc.outcome("cff:%s:%s" % (want, g.clock))
    if bool(got) != want or not isinstance(got, bool):
        if want:
            pred = ("false-negative:only-path-via-older-commit" if not _restricted_path(g, a, b)
                    else "false-negative:not-older-path-exists")
        else:
            pred = "false-positive"
        acc.violation(_key("graph:can_fast_forward:%s:%s-clock" % (pred, g.clock)),
                      "%s can_fast_forward(c%d, c%d) returned %r, expected %r (c%d %s an ancestor of c%d)"
                      % (_desc(g), a, b, got, want, a, "is" if want else "is not", b),
                      rp(case_cff, dag, ranks, a, b))
    return got


def case_merge_base(acc: Acc, dag, ranks, a, others):
    """find_merge_base(repo, [a, *others]) == maximal common ancestors of a and any of others."""
    from dulwich.graph import find_merge_base

    g = graph(dag, ranks)
    others = list(others)
    want = ref.merge_bases(g.C, a, others)
    acc.count("q_find_merge_base")
    try:
        res = find_merge_base(g.repo, [g.ids[a]] + [g.ids[o] for o in others])
    except Exception as e:
        acc.outcome("fmb:raises")
        acc.violation("graph:find_merge_base:raises-%s:%s-clock" % (type(e).__name__, g.clock),
                      "%s find_merge_base(%d,%r) raised %r" % (_desc(g), a, others, e),
                      rp(case_merge_base, dag, ranks, a, others))
        return None
    got_l = _nodes(g, res)
    got = frozenset(got_l)
    acc.outcome("fmb:%d-other:|mb|=%d:%s" % (min(len(others), 2), len(want), g.clock))
    if len(got_l) != len(got):
        acc.outcome("fmb:duplicate-entries-in-result")
    if got != want:
        common = g.C[a] & ref.reachable(g.C, others) if others else frozenset([a])
        pred = _setcmp_predicate(got, want, common)
        acc.violation(_key("graph:find_merge_base:%s:%s-clock" % (pred, g.clock)),
                      "%s find_merge_base([c%d]+%s) returned %s, maximal common ancestors are %s"
                      % (_desc(g), a, ["c%d" % o for o in others], sorted(map(str, got)), sorted(want)),
                      rp(case_merge_base, dag, ranks, a, others))
    return got


def _pairwise_union_model(C, nodes):
    """The iterative scheme 'bases := U merge_bases(next, b) for b in bases' evaluated with exact
    pairwise merge bases and without a final reduction."""
    bases = [nodes[0]]
    for nxt in nodes[1:]:
        new = []
        for b in bases:
            new.extend(sorted(ref.merge_bases(C, nxt, [b])))
        bases = new
    return frozenset(bases)


def case_octopus(acc: Acc, dag, ranks, nodes):
    """find_octopus_base(repo, nodes) == maximal common ancestors of *all* nodes."""
    from dulwich.graph import find_octopus_base

    g = graph(dag, ranks)
    nodes = list(nodes)
    want = ref.octopus_bases(g.C, nodes)
    acc.count("q_find_octopus_base")
    try:
        res = find_octopus_base(g.repo, [g.ids[x] for x in nodes])
    except Exception as e:
        acc.outcome("octopus:raises")
        acc.violation("graph:find_octopus_base:raises-%s:%s-clock" % (type(e).__name__, g.clock),
                      "%s find_octopus_base(%r) raised %r" % (_desc(g), nodes, e), rp(case_octopus, dag, ranks, nodes))
        return None
    got_l = _nodes(g, res)
    got = frozenset(got_l)
    acc.outcome("octopus:%d:|mb|=%d:%s" % (len(nodes), len(want), g.clock))
    if len(got_l) != len(got):
        acc.outcome("octopus:duplicate-entries-in-result")
    if got != want:
        common = frozenset.intersection(*[g.C[x] for x in nodes])
        pred = _setcmp_predicate(got, want, common)
        if pred == "non-maximal-base":
            # would the pairwise scheme (bases of the next commit with every base so far, united)
            # be wrong even if every pairwise answer were exact?
            pred += (":union-not-reduced" if _pairwise_union_model(g.C, nodes) != want
                     else ":pairwise-inexact")
        acc.violation(_key("graph:find_octopus_base:%s:%s-clock" % (pred, g.clock)),
                      "%s find_octopus_base(%s) returned %s, maximal common ancestors of all are %s"
                      % (_desc(g), ["c%d" % o for o in nodes], sorted(map(str, got)), sorted(want)),
                      rp(case_octopus, dag, ranks, nodes))
    return got


def case_independent(acc: Acc, dag, ranks, nodes):
    """independent(repo, nodes) == members not reachable from another member."""
    from dulwich.graph import independent

    g = graph(dag, ranks)
    nodes = list(nodes)
    want = ref.independent(g.C, nodes)
    acc.count("q_independent")
    try:
        res = independent(g.repo, [g.ids[x] for x in nodes])
    except Exception as e:
        acc.outcome("independent:raises")
        acc.violation("graph:independent:raises-%s:%s-clock" % (type(e).__name__, g.clock),
                      "%s independent(%r) raised %r" % (_desc(g), nodes, e), rp(case_independent, dag, ranks, nodes))
        return None
    got = frozenset(_nodes(g, res))
    acc.outcome("independent:%d->%d:%s" % (len(nodes), len(want), g.clock))
    if got != want:
        extra, missing = got - want, want - got
        if extra - set(nodes):
            pred = "non-member-returned"
        elif missing:
            pred = "independent-commit-dropped"
        else:
            pred = "ancestor-of-another-member-kept"
        acc.violation(_key("graph:independent:%s:%s-clock" % (pred, g.clock)),
                      "%s independent(%s) returned %s, expected %s"
                      % (_desc(g), ["c%d" % o for o in nodes], sorted(map(str, got)), sorted(want)),
                      rp(case_independent, dag, ranks, nodes))
    return got


# --------------------------------------------------------------------------- (w) walks


def walk_expect(g: TG, include, exclude, since_rank, until_rank):
    """(allowed, exact): allowed = what may be yielded under any clock (reachable from include and
    inside the time window); exact = additionally not reachable from exclude."""
    since = None if since_rank is None else BASE + STEP * since_rank
    until = None if until_rank is None else BASE + STEP * until_rank
    r_inc = ref.reachable(g.C, include)
    r_exc = ref.reachable(g.C, exclude)
    win = frozenset(x for x in range(len(g.dag))
                    if (since is None or g.t[x] >= since) and (until is None or g.t[x] <= until))
    return r_inc, win, (r_inc - r_exc) & win, since, until


def run_walk(repo, ids, include, exclude, order, reverse, max_entries, since, until):
    w = repo.get_walker(
        include=[ids[x] for x in include],
        exclude=[ids[x] for x in exclude] or None,
        order=order,
        reverse=reverse,
        max_entries=max_entries,
        since=since,
        until=until,
    )
    return [e.commit.id for e in w]


def case_walk(acc: Acc, dag, ranks, include, exclude, order, reverse, max_entries, since_rank, until_rank,
              shaspec=()):
    """One get_walker() run against the brute-force expectation."""
    g = graph(dag, ranks, shaspec)
    include, exclude = list(include), list(exclude)
    r_inc, win, exact, since, until = walk_expect(g, include, exclude, since_rank, until_rank)
    filt = [n for n, on in (("exc", bool(exclude)), ("since", since is not None), ("until", until is not None),
                            ("max", max_entries is not None)) if on]
    fclass = "+".join(filt) or "unfiltered"
    must_be_exact = g.clock != "skew" or not filt
    replay = rp(case_walk, dag, ranks, include, exclude, order, reverse, max_entries, since_rank, until_rank,
                *([[list(x) for x in g.shaspec]] if g.shaspec else []))
    what = "%s get_walker(include=%s exclude=%s order=%s reverse=%s max_entries=%s since=%s until=%s)" % (
        _desc(g), include, exclude, order, reverse, max_entries,
        None if since_rank is None else "t%d" % since_rank, None if until_rank is None else "t%d" % until_rank)
    acc.count("q_walk")
    try:
        ids = run_walk(g.repo, g.ids, include, exclude, order, reverse, max_entries, since, until)
    except Exception as e:
        acc.outcome("walk:raises")
        acc.violation("walk:Walker:raises-%s:%s:%s-clock" % (type(e).__name__, fclass, g.clock),
                      "%s raised %r" % (what, e), replay)
        return None
    seq = _nodes(g, ids)
    got = frozenset(seq)

    def bad(pred, detail):
        acc.violation(_key("walk:Walker:%s:%s:%s-clock" % (pred, fclass, g.clock)),
                      "%s yielded %s: %s" % (what, seq, detail), replay)

    ok = True
    if any(isinstance(x, str) for x in seq):
        bad("unknown-object-yielded", "not a commit of the graph")
        return seq
    if len(seq) != len(got):
        ok = False
        bad("commit-yielded-twice", "duplicates")
    if got - r_inc:
        ok = False
        bad("unreachable-commit-yielded", "reachable(include)=%s" % sorted(r_inc))
    elif got - win:
        ok = False
        bad("commit-outside-window-yielded", "window=%s" % sorted(win))
    if max_entries is not None and len(seq) > max_entries:
        ok = False
        bad("more-than-max_entries", "max_entries=%d" % max_entries)
    if must_be_exact:
        if (got & r_inc & win) - exact:
            ok = False
            bad("excluded-commit-yielded", "reachable(include)-reachable(exclude) in window = %s" % sorted(exact))
        if max_entries is None:
            if exact - got:
                ok = False
                bad("reachable-commit-missing", "expected exactly %s" % sorted(exact))
        elif len(got) < min(max_entries, len(exact)):
            ok = False
            bad("fewer-than-max_entries", "%d available" % len(exact))
    else:
        # skew + cut-offs: only soundness is required; record what happened for the vacuity guard
        if got - exact:
            acc.outcome("walk:skew:excluded-commit-leaked(allowed)")
        if max_entries is None and exact - got:
            acc.outcome("walk:skew:commit-lost-by-early-termination(allowed)")
    if order == "topo":
        fwd = list(reversed(seq)) if reverse else seq
        if not ref.topo_ok(g.dag, fwd):
            ok = False
            acc.violation(_key("walk:Walker:topo-parent-before-child:%s%s:%s-clock"
                               % (fclass, "+reverse" if reverse else "", g.clock)),
                          "%s yielded %s: a parent comes before its child" % (what, seq), replay)
    acc.outcome("walk:%s:%s:%s:%s" % (order, fclass, g.clock, "ok" if ok else "bad"))
    return seq


# --------------------------------------------------------------------------- query profiles


def graph_queries(n, profile):
    """Deterministic list of (case_fn_name, args) for a graph with n nodes."""
    V = range(n)
    q = []
    if profile == "full":
        q += [("cff", (a, b)) for a in V for b in V]
        q += [("fmb", (a, (b,))) for a in V for b in V]
        q += [("fmb", (a, (b, c))) for a in V for b in V for c in V if b < c]
        if n >= 4:
            q += [("fmb", (a, tuple(x for x in V if x != a))) for a in V]
        for t in itertools.combinations(V, 3):
            q += [("oct", t), ("oct", (t[1], t[2], t[0])), ("oct", (t[2], t[0], t[1])), ("oct", (t[2], t[1], t[0]))]
        if n >= 4:
            q += [("oct", tuple(V)), ("oct", tuple(reversed(V)))]
        for k in (2, 3):
            for t in itertools.combinations(V, k):
                q += [("ind", t), ("ind", tuple(reversed(t)))]
        if n >= 4:
            q += [("ind", tuple(V))]
    elif profile == "mid":
        q += [("cff", (a, b)) for a in V for b in V if a != b]
        q += [("fmb", (a, (b,))) for a in V for b in V if a != b]
        q += [("fmb", (a, (b, c))) for a in V for b in V for c in V if b < c and a not in (b, c)]
        for t in itertools.combinations(V, 3):
            q += [("oct", t), ("oct", (t[1], t[2], t[0])), ("oct", (t[2], t[0], t[1]))]
        for k in (2, 3):
            for t in itertools.combinations(V, k):
                q += [("ind", t)]
    elif profile == "pairs":
        q += [("cff", (a, b)) for a in V for b in V if a != b]
        q += [("fmb", (a, (b,))) for a in V for b in V if a != b]
    else:
        raise AssertionError(profile)
    return q


_ROWS_FULL = [(o, r, m) for o in ("date", "topo") for r in (False, True) for m in (None, 1, 2)]
_ROWS_LITE = [("date", False, None), ("topo", False, None), ("date", True, None), ("date", False, 1),
              ("date", False, 2), ("topo", True, 2)]
_ROWS_MIN = [("date", False, None), ("topo", False, None)]
_ROWS_ORDER = [("date", False, None), ("topo", False, None), ("topo", True, None)]

WALK_PROFILES = {
    # inc_max, exc_max, rows, since/until mode, extra rows when exclude is empty
    "full": dict(inc=2, exc=2, rows=_ROWS_FULL, rows_exc2=_ROWS_LITE, su="pairs", su_exc=1, rows_noexc=[]),
    "lite": dict(inc=2, exc=1, rows=_ROWS_LITE, su="single", su_exc=0, rows_noexc=[]),
    "min": dict(inc=2, exc=1, rows=_ROWS_MIN, su="none", su_exc=-1,
                rows_noexc=[("date", False, 1), ("topo", True, 2), ("date", True, None)]),
    "min1": dict(inc=1, exc=1, rows=_ROWS_MIN, su="none", su_exc=-1,
                 rows_noexc=[("date", False, 1), ("topo", True, 2), ("date", True, None)]),
    "order": dict(inc=2, exc=1, rows=_ROWS_ORDER, su="none", su_exc=-1, rows_noexc=[]),
    "none": None,
}


def walk_queries(n, levels, profile):
    """Deterministic list of walk argument tuples
    (include, exclude, order, reverse, max_entries, since_rank, until_rank)."""
    p = WALK_PROFILES[profile]
    if p is None:
        return []
    V = list(range(n))
    incs = [s for s in E.subsets(V, p["inc"], 1)]
    excs = [s for s in E.subsets(V, p["exc"], 0)]
    out = []
    for inc in incs:
        for exc in excs:
            rows = p["rows"] if len(exc) < 2 else p.get("rows_exc2", p["rows"])
            for (o, r, m) in rows:
                out.append((inc, exc, o, r, m, None, None))
            if not exc:
                for (o, r, m) in p["rows_noexc"]:
                    out.append((inc, exc, o, r, m, None, None))
            if len(exc) <= p["su_exc"]:
                for lv in range(levels):
                    out.append((inc, exc, "date", False, None, lv, None))
                    out.append((inc, exc, "date", False, None, None, lv))
            if p["su"] == "pairs" and not exc:
                for s in range(levels):
                    for u in range(s, levels):
                        out.append((inc, exc, "date", False, None, s, u))
                for lv in range(levels):
                    out.append((inc, exc, "topo", True, 2, lv, None))
    return out


def two_chain_histories(n, cross):
    """Deep, narrow histories that make the walker's cut-off slop (_MAX_EXTRA_COMMITS) engage:
    chain A (a commits) and chain B (b commits), a + b = n; B starts as a new root or forks from
    any commit of A; optionally (cross) one commit of A additionally merges one commit of B.
    Every interleaving of the two chains in time is produced: node number == time rank, so the
    clock of (dag, identity ranks) is strictly monotone.  Yields DAGs (topological numbering)."""
    for a in range(1, n):
        b = n - a
        for pos_a in itertools.combinations(range(n), a):
            pos_b = [x for x in range(n) if x not in pos_a]
            for j in range(0, a + 1):
                if j and pos_a[j - 1] > pos_b[0]:
                    continue
                par = [[] for _ in range(n)]
                for i in range(1, a):
                    par[pos_a[i]].append(pos_a[i - 1])
                for i in range(1, b):
                    par[pos_b[i]].append(pos_b[i - 1])
                if j:
                    par[pos_b[0]].append(pos_a[j - 1])
                yield tuple(tuple(sorted(ps)) for ps in par)
                if cross:
                    for k in range(a):
                        for m in range(b):
                            if pos_b[m] < pos_a[k] and pos_b[m] not in par[pos_a[k]]:
                                par2 = [list(ps) for ps in par]
                                par2[pos_a[k]].append(pos_b[m])
                                yield tuple(tuple(sorted(ps)) for ps in par2)


def plateau_clocks(n, max_levels):
    """Every non-decreasing map of the node numbering onto 0..L-1, L <= max_levels (compositions of n into
    <= max_levels parts): monotone clocks in which runs of consecutive commits share one timestamp."""
    out = []
    for L in range(1, max_levels + 1):
        for cuts in itertools.combinations(range(1, n), L - 1):
            out.append(tuple(sum(1 for c in cuts if c <= i) for i in range(n)))
    return out


DEEP_MAX_ROWS = [("date", 1), ("date", 3), ("topo", 2)]


def tied_histories(quick):
    """Histories for the all-equal clock with controlled object-id order of the tips (family "tied"):
    every two-chain history with 8 commits, and the single chains with 9 and 10 commits (quick: 9)."""
    out = sorted(set(two_chain_histories(8, False)))
    for n in (9,) if quick else (9, 10):
        out.append(tuple(() if i == 0 else (i - 1,) for i in range(n)))
    return out


def tied_cases(dag):
    """[(shaspec, walk args)]: each tip's id sorting first / last among all commits x include = every single
    commit or all tips x exclude = each tip (the commits whose place in the tie-break order is controlled)
    x {unlimited, max_entries 1, 3 (date), 2 (topo)}."""
    n = len(dag)
    ch = E.children(dag)
    tips = tuple(i for i in range(n) if not ch[i])
    specs = [tuple(zip(tips, modes)) for modes in itertools.product(("hi", "lo"), repeat=len(tips))]
    incs = [(x,) for x in range(n)] + ([tips] if len(tips) > 1 else [])
    out = []
    for spec in specs:
        for inc in incs:
            for x in tips:
                if (x,) == inc:
                    continue
                out.append((spec, (inc, (x,), "date", False, None, None, None)))
                for o, m in DEEP_MAX_ROWS:
                    out.append((spec, (inc, (x,), o, False, m, None, None)))
    return out


def eval_tied(acc: Acc, dag):
    ranks = (0,) * len(dag)
    acc.count("tied_histories")
    last = None
    for spec, wa in tied_cases(dag):
        if spec != last:
            acc.count("timed_graphs")
            acc.count("timed_graphs_ties_clock")
            last = spec
        case_walk(acc, dag, ranks, *wa, spec)


def deep_walk_queries(dag, levels):
    n = len(dag)
    ch = E.children(dag)
    tips = tuple(i for i in range(n) if not ch[i])
    incs = [(t,) for t in tips] + ([tips] if len(tips) > 1 else [])
    out = []
    for inc in incs:
        for exc in [()] + [(x,) for x in range(n)]:
            out.append((inc, exc, "date", False, None, None, None))
            out.append((inc, exc, "topo", False, None, None, None))
            for o, m in DEEP_MAX_ROWS:  # a limit next to an exclude (all clocks here are monotone: exact)
                out.append((inc, exc, o, False, m, None, None))
        for exc in [()] + [(t,) for t in tips if t not in inc]:
            for lv in range(levels):
                out.append((inc, exc, "date", False, None, lv, None))
                out.append((inc, exc, "date", False, None, None, lv))
            out.append((inc, exc, "date", False, 2, None, None))
            out.append((inc, exc, "topo", True, 3, None, None))
    return out


def eval_deep(acc: Acc, dag, ranks):
    g = graph(dag, ranks)
    acc.count("timed_graphs")
    acc.count("timed_graphs_%s_clock" % g.clock)
    acc.count("deep_timed_graphs")
    for wa in deep_walk_queries(dag, max(ranks) + 1):
        case_walk(acc, dag, ranks, *wa)
    tips = [i for i in range(len(dag)) if not E.children(dag)[i]]
    for a in range(len(dag)):
        for b in tips:
            if a != b:
                case_cff(acc, dag, ranks, a, b)
    if len(tips) > 1:
        case_merge_base(acc, dag, ranks, tips[0], (tips[1],))
        case_merge_base(acc, dag, ranks, tips[1], (tips[0],))


_GQ = {"cff": case_cff, "fmb": case_merge_base, "oct": case_octopus, "ind": case_independent}


def eval_timed_graph(acc: Acc, dag, ranks, gprofile, wprofile):
    g = graph(dag, ranks)
    n = len(dag)
    acc.count("timed_graphs")
    acc.count("timed_graphs_%s_clock" % g.clock)
    gq = graph_queries(n, gprofile)
    wq = walk_queries(n, max(ranks) + 1, wprofile)
    acc.sample({"dag": _desc(g), "clock": g.clock, "graph_queries": len(gq), "walks": len(wq),
                "first_walk": repr(wq[0]) if wq else None}, cap=2)
    for kind, args in gq:
        if kind in ("oct", "ind"):
            _GQ[kind](acc, dag, ranks, args)
        else:
            _GQ[kind](acc, dag, ranks, *args)
    for wa in wq:
        case_walk(acc, dag, ranks, *wa)


# --------------------------------------------------------------------------- (x) C git + commit-graph

_GIT = {"dir": None, "written": set()}


def _gitdir():
    if _GIT["dir"] is None or _GIT.get("pid") != os.getpid():
        d = fresh_dir("c13git")
        git(["init", "-q", "--bare", d])
        _GIT.update(dir=d, written=set(), pid=os.getpid())
    return _GIT["dir"]


def _write_loose(gitdir, hexid: bytes, type_name: bytes, raw: bytes):
    if hexid in _GIT["written"]:
        return
    h = hexid.decode()
    d = os.path.join(gitdir, "objects", h[:2])
    os.makedirs(d, exist_ok=True)
    p = os.path.join(d, h[2:])
    if not os.path.exists(p):
        with open(p, "wb") as f:
            f.write(zlib.compress(type_name + b" %d\x00" % len(raw) + raw, 1))
    _GIT["written"].add(hexid)


def _run_script(gitdir, lines):
    """Run many git commands in ONE shell; every command is followed by a marker line
    '@@ <exit status>'.  Returns list of (stdout_lines, status) per command."""
    path = os.path.join(gitdir, "q.sh")
    with open(path, "w") as f:
        for ln in lines:
            f.write(ln + '\necho "@@ $?"\n')
    p = subprocess.run(["sh", path], cwd=gitdir, capture_output=True, env=git_env(), timeout=3600)
    if p.returncode != 0:
        raise HarnessError("git batch script failed: %r" % p.stderr[-1000:])
    out = []
    cur = []
    for ln in p.stdout.split(b"\n"):
        if ln.startswith(b"@@ "):
            out.append((cur, int(ln[3:])))
            cur = []
        elif ln:
            cur.append(ln)
    if len(out) != len(lines):
        raise HarnessError("git batch: %d answers for %d commands; stderr=%r" % (len(out), len(lines), p.stderr[-1000:]))
    return out, p.stderr


def git_queries(n, levels, monotone, wide):
    """Queries sent to C git for one timed graph: list of (kind, args)."""
    V = range(n)
    q = []
    q += [("anc", (a, b)) for a in V for b in V if a != b]
    q += [("mb", (a, (b,))) for a in V for b in V if a < b]
    q += [("mb", (a, (b, c))) for a in V for b in V for c in V if b < c and a not in (b, c)]
    q += [("oct", t) for t in itertools.combinations(V, 3)]
    if n >= 4:
        q += [("oct", tuple(V))]
    q += [("ind", t) for k in (2, 3, 4) for t in itertools.combinations(V, k)]
    incs = list(E.subsets(list(V), 2, 1))
    excs = list(E.subsets(list(V), 2 if wide else 1, 0))
    for inc in incs:
        for exc in excs:
            if exc and not monotone and len(exc) > 1:
                continue  # git's own limit_list is not required to be exact there; nothing to compare
            q.append(("rl", (inc, exc, "date", None, None)))
            if len(exc) <= 1 and (monotone or not exc):
                q.append(("rl", (inc, exc, "topo", None, None)))
        if monotone:
            for lv in range(levels):
                q.append(("rl", (inc, (), "date", lv, None)))
                q.append(("rl", (inc, (), "date", None, lv)))
    return q


def _git_cmd(hexids, kind, args):
    H = lambda x: hexids[x].decode()
    if kind == "anc":
        return "git merge-base --is-ancestor %s %s" % (H(args[0]), H(args[1]))
    if kind == "mb":
        return "git merge-base --all %s %s" % (H(args[0]), " ".join(H(o) for o in args[1]))
    if kind == "oct":
        return "git merge-base --octopus --all " + " ".join(H(o) for o in args)
    if kind == "ind":
        return "git merge-base --independent " + " ".join(H(o) for o in args)
    if kind == "rl":
        inc, exc, order, s, u = args
        opts = []
        if order == "topo":
            opts.append("--topo-order")
        if s is not None:
            opts.append("--max-age=%d" % (BASE + STEP * s))
        if u is not None:
            opts.append("--min-age=%d" % (BASE + STEP * u))
        return "git rev-list %s %s %s" % (" ".join(opts), " ".join(H(x) for x in inc), " ".join("^" + H(x) for x in exc))
    raise AssertionError(kind)


def case_git_graph(acc: Acc, dag, ranks, wide=False):
    """Second oracle for one timed graph: C git on the identical commit objects.
    git != reference model where git is exact  => HarnessError (our bug).
    Walker date order != git's order where unambiguous => violation."""
    case_git_batch(acc, [(dag, ranks)], wide)


def case_git_batch(acc: Acc, items, wide=False):
    gitdir = _gitdir()
    tgs = []
    script = []
    index = []
    for dag, ranks in items:
        dag, ranks = _norm(dag, ranks)
        tree, commits = make_commits(dag, ranks)
        _write_loose(gitdir, tree.id, b"tree", tree.as_raw_string())
        for c in commits:
            _write_loose(gitdir, c.id, b"commit", c.as_raw_string())
        hexids = [c.id for c in commits]
        C = ref.closure(dag)
        t = [BASE + STEP * r for r in ranks]
        clock = ref.clock_class(dag, t)
        node = {h: i for i, h in enumerate(hexids)}
        tgs.append((dag, ranks, hexids, C, t, clock, node))
        for kind, args in git_queries(len(dag), max(ranks) + 1, clock != "skew", wide):
            script.append(_git_cmd(hexids, kind, args))
            index.append((len(tgs) - 1, kind, args))
    # git must see exactly our objects under exactly our ids
    allids = sorted({h for tg in tgs for h in tg[2]})
    chk = git(["cat-file", "--batch-check"], cwd=gitdir, input=b"\n".join(allids) + b"\n").stdout.split(b"\n")
    for h, ln in zip(allids, chk):
        if not ln.startswith(h + b" commit "):
            raise HarnessError("C git does not see dulwich's commit %r: %r" % (h, ln))
    answers, _ = _run_script(gitdir, script)
    for (ti, kind, args), (lines, status) in zip(index, answers):
        dag, ranks, hexids, C, t, clock, node = tgs[ti]
        acc.count("git_queries")
        try:
            got_seq = [node[x] for x in lines]
        except KeyError:
            raise HarnessError("git printed an unknown id for %s %r: %r" % (kind, args, lines))
        got = frozenset(got_seq)
        where = "dag=%r ranks=%r %s%r" % (dag, ranks, kind, args)
        if kind == "anc":
            if status not in (0, 1):
                raise HarnessError("git --is-ancestor status %d: %s" % (status, where))
            if (status == 0) != ref.is_ancestor(C, args[0], args[1]):
                raise HarnessError("reference model and C git disagree: %s git=%d" % (where, status))
            acc.outcome("git:is-ancestor:%s" % (status == 0))
            continue
        if status != 0 and not (kind in ("mb", "oct") and status == 1 and not lines):
            raise HarnessError("git failed (%d): %s" % (status, where))
        if kind == "mb":
            want = ref.merge_bases(C, args[0], list(args[1]))
        elif kind == "oct":
            want = ref.octopus_bases(C, list(args))
        elif kind == "ind":
            want = ref.independent(C, list(args))
        else:
            inc, exc, order, s, u = args
            r_inc = ref.reachable(C, inc)
            r_exc = ref.reachable(C, exc)
            win = frozenset(x for x in range(len(dag))
                            if (s is None or t[x] >= BASE + STEP * s) and (u is None or t[x] <= BASE + STEP * u))
            want = (r_inc - r_exc) & win
            if len(got_seq) != len(got):
                raise HarnessError("git rev-list printed duplicates: %s" % where)
            if order == "topo" and not ref.topo_ok(dag, got_seq):
                raise HarnessError("git --topo-order is not topological?! %s -> %r" % (where, got_seq))
            if clock == "skew" and exc:
                # git's own limit_list works with a slop; exactness is not required of it here
                acc.outcome("git:rev-list:skew+exclude:%s" % ("same" if got == want else "differs"))
                continue
        if got != want:
            raise HarnessError("reference model and C git disagree: %s git=%r model=%r" % (where, sorted(got), sorted(want)))
        acc.outcome("git:%s:agrees" % kind)
        if kind == "rl":
            inc, exc, order, s, u = args
            if order == "date" and len(set(ranks)) == len(ranks):
                # unambiguous date order: the walker must list the commits in git's order
                g = graph(dag, ranks)
                acc.count("git_order_comparisons")
                try:
                    ids = run_walk(g.repo, g.ids, inc, exc, "date", False, None,
                                   None if s is None else BASE + STEP * s, None if u is None else BASE + STEP * u)
                except Exception:
                    continue  # reported by case_walk
                mine = _nodes(g, ids)
                if frozenset(mine) == got and mine != got_seq:
                    acc.violation("walk:Walker:date-order-differs-from-git:%s:%s-clock"
                                  % ("exc" if exc else "unfiltered" if s is None and u is None else "since-until", clock),
                                  "%s include=%s exclude=%s: dulwich %s, git rev-list %s (all timestamps distinct)"
                                  % (_desc(g), list(inc), list(exc), mine, got_seq),
                                  rp(case_git_graph, dag, ranks, wide))
                else:
                    acc.outcome("git:rev-list:date-order-same")
    acc.count("git_timed_graphs", len(tgs))
    return tgs


def case_commit_graph(acc: Acc, dag, ranks):
    case_commit_graph_batch(acc, [(dag, ranks)])


def _cg_differential(acc: Acc, area, g: TG, repo, ids, replay, light):
    """Answers of `repo` (disk Repo whose commit-graph is loaded) against the commit objects and the
    plain in-memory store for one history."""
    from dulwich.graph import can_fast_forward, find_merge_base

    graph_obj = repo.object_store.get_commit_graph()
    if graph_obj is None:
        raise HarnessError("dulwich does not load the commit-graph")
    dag, n = g.dag, len(g.dag)
    for i in range(n):
        ps = graph_obj.get_parents(ids[i])
        if ps is None:
            raise HarnessError("commit missing from commit-graph")
        acc.count("cg_parent_lookups")
        if list(ps) != [ids[p] for p in dag[i]]:
            acc.violation(_key(area + ":get_parents:parents-differ-from-commit-object"),
                          "%s node %d: commit-graph parents %r, commit object %r"
                          % (_desc(g), i, _nodes(g, ps), list(dag[i])), replay)
    for a in range(n):
        for b in range(n):
            if a == b:
                continue
            acc.count("cg_queries", 2)
            x = _safe(can_fast_forward, repo, ids[a], ids[b])
            y = _safe(can_fast_forward, g.repo, ids[a], ids[b])
            if x != y:
                acc.violation(_key(area + ":can_fast_forward:answer-differs-from-plain-store"),
                              "%s (c%d,c%d): with commit-graph %r, without %r" % (_desc(g), a, b, x, y), replay)
            if light and a > b:
                acc.count("cg_queries", -1)
                continue
            x = _safe(find_merge_base, repo, [ids[a], ids[b]])
            y = _safe(find_merge_base, g.repo, [ids[a], ids[b]])
            if x != y:
                acc.violation(_key(area + ":find_merge_base:answer-differs-from-plain-store"),
                              "%s (c%d,c%d): with commit-graph %r, without %r"
                              % (_desc(g), a, b, _nodes(g, x) if isinstance(x, list) else x,
                                 _nodes(g, y) if isinstance(y, list) else y), replay)
    if light:
        ch = E.children(dag)
        tips = tuple(i for i in range(n) if not ch[i])
        incs = [(x,) for x in range(n)] + ([tips] if len(tips) > 1 else [])
        walks = [(inc, (), o) for inc in incs for o in ("date", "topo")]
        walks += [(tips, (x,), "date") for x in range(n) if x not in tips]
    else:
        walks = [(inc, exc, o) for inc in E.subsets(range(n), 2, 1) for exc in E.subsets(range(n), 1, 0)
                 for o in ("date", "topo")]
    for inc, exc, order in walks:
        acc.count("cg_queries")
        x = _safe(run_walk, repo, ids, inc, exc, order, False, None, None, None)
        y = _safe(run_walk, g.repo, ids, inc, exc, order, False, None, None, None)
        if x != y:
            acc.violation(_key(area + ":get_walker:answer-differs-from-plain-store"),
                          "%s include=%s exclude=%s %s: with commit-graph %r, without %r"
                          % (_desc(g), inc, exc, order, _nodes(g, x) if isinstance(x, list) else x,
                             _nodes(g, y) if isinstance(y, list) else y), replay)


def case_commit_graph_batch(acc: Acc, items, light=False):
    """C git writes a commit-graph for the histories; dulwich's disk Repo (commit-graph in use)
    must give the same answers as the plain in-memory store."""
    from dulwich.repo import Repo

    gitdir = _gitdir()
    allids = []
    built = []
    for dag, ranks in items:
        dag, ranks = _norm(dag, ranks)
        tree, commits = make_commits(dag, ranks)
        _write_loose(gitdir, tree.id, b"tree", tree.as_raw_string())
        for c in commits:
            _write_loose(gitdir, c.id, b"commit", c.as_raw_string())
            allids.append(c.id)
        built.append((dag, ranks, [c.id for c in commits]))
    cg = os.path.join(gitdir, "objects", "info", "commit-graph")
    if os.path.exists(cg):
        os.unlink(cg)
    git(["commit-graph", "write", "--stdin-commits"], cwd=gitdir, input=b"\n".join(sorted(set(allids))) + b"\n")
    if not os.path.exists(cg):
        raise HarnessError("git did not write a commit-graph")
    repo = Repo(gitdir)
    try:
        for dag, ranks, ids in built:
            _cg_differential(acc, "commit-graph", graph(dag, ranks), repo, ids, rp(case_commit_graph, dag, ranks), light)
            acc.count("cg_timed_graphs")
    finally:
        repo.close()
        os.unlink(cg)


def octopus_histories():
    """Histories with two or three octopus merges (3+ parents), the shapes whose commit-graph needs more than
    one entry in the extra-edge chunk:
      n=5: every DAG whose commits 3 and 4 both have exactly 3 parents (32), parents ascending and descending;
      n=6: three roots, then three commits with >=3 parents each, every choice (80);
      n=10: a root with six children, two 3-parent merges of them and a merge of the merges."""
    out = []
    for d in E.dags(5, 3):
        if len(d[3]) == 3 and len(d[4]) == 3:
            out.append(d)
            out.append(tuple(tuple(reversed(ps)) for ps in d))
    for p4 in list(itertools.combinations(range(4), 3)) + [(0, 1, 2, 3)]:
        for k in (3, 4, 5):
            for p5 in itertools.combinations(range(5), k):
                out.append(((), (), (), (0, 1, 2), p4, p5))
    out.append(((), (0,), (0,), (0,), (0,), (0,), (0,), (1, 2, 3), (4, 5, 6), (7, 8)))
    return out


def case_cg_written(acc: Acc, dag, ranks, mode):
    """dulwich itself writes the commit-graph (mode 'tips': write_commit_graph(childless commits),
    'all': write_commit_graph() over every commit in the store) into a fresh disk repository; the
    repository is re-opened and must answer like the plain in-memory store."""
    from dulwich.repo import Repo

    dag, ranks = _norm(dag, ranks)
    g = graph(dag, ranks)
    d = fresh_dir("c13cgw")
    try:
        repo = Repo.init_bare(d)
        tree, commits = make_commits(dag, ranks)
        repo.object_store.add_object(tree)
        for c in commits:
            repo.object_store.add_object(c)
        ids = [c.id for c in commits]
        if ids != g.ids:
            raise HarnessError("ids differ between the two builds")
        ch = E.children(dag)
        replay = rp(case_cg_written, dag, ranks, mode)
        try:
            if mode == "tips":
                repo.object_store.write_commit_graph([ids[i] for i in range(len(dag)) if not ch[i]])
            else:
                repo.object_store.write_commit_graph()
        except Exception as e:
            acc.violation("commit-graph:dulwich-written:write-raises-%s" % type(e).__name__,
                          "%s write_commit_graph(%s) raised %r" % (_desc(g), mode, e), replay)
            return
        finally:
            repo.close()
        acc.count("cgw_histories")
        if not os.path.exists(os.path.join(d, "objects", "info", "commit-graph")):
            raise HarnessError("dulwich wrote no commit-graph")
        v = git(["commit-graph", "verify"], cwd=d, check=False)
        acc.outcome("cgw:git-commit-graph-verify:%s" % ("accepts" if v.returncode == 0 else "rejects"))
        repo = Repo(d)
        try:
            _cg_differential(acc, "commit-graph:dulwich-written", g, repo, ids, replay, True)
        finally:
            repo.close()
    finally:
        import shutil

        shutil.rmtree(d, ignore_errors=True)


def _safe(fn, *a):
    try:
        return fn(*a)
    except Exception as e:  # compared as an outcome
        return "raises:" + type(e).__name__


# --------------------------------------------------------------------------- task plumbing


def work(task):
    kind, items, params = task
    acc = Acc()
    if kind == "enum":
        gprofile, wprofile = params
        for dag, ranks in items:
            eval_timed_graph(acc, dag, ranks, gprofile, wprofile)
    elif kind == "deep":
        for dag, ranks in items:
            eval_deep(acc, dag, ranks)
    elif kind == "tied":
        for dag in items:
            eval_tied(acc, dag)
    elif kind == "cgw":
        for dag, ranks, mode in items:
            case_cg_written(acc, dag, ranks, mode)
        case_commit_graph_batch(acc, sorted({(d, r) for d, r, m in items if m == "tips" and r[-1] > r[0]}), light=True)
    elif kind == "git":
        case_git_batch(acc, items, params)
        case_commit_graph_batch(acc, items)
    else:
        raise AssertionError(kind)
    return acc


def timed(dag_iter, n, max_levels=None):
    orders = list(E.weak_orderings(n, max_levels))
    return [(d, r) for d in dag_iter for r in orders]


def extreme_orders(n):
    """all-equal, strictly increasing with the numbering, strictly decreasing."""
    return [tuple([0] * n), tuple(range(n)), tuple(reversed(range(n)))]


def permuted_parent_dags(n, max_parents):
    """DAGs of dags(n, max_parents) with at least one parent list NOT in ascending order
    (all other first-parent / parent-order variants of every shape)."""
    for d in E.dags(n, max_parents):
        for v in E.parent_orders(d):
            if v != d:
                yield v


def run(ctx):
    q = ctx.quick
    J = ctx.jobs
    phases = []  # (label, tasks)   — simplest first, so the recorded examples are the small ones
    bounds = {}

    def enum_phase(label, items, gprofile, wprofile, per_task):
        items = ctx.order(items)
        nt = max(1, min(len(items), max(J * 3, len(items) // per_task)))
        phases.append((label, [("enum", part, (gprofile, wprofile)) for part in split(items, nt)]))
        bounds[label] = {"timed_graphs": len(items), "graph_queries": gprofile, "walks": wprofile}

    small = [tg for n in (1, 2, 3) for tg in timed(E.dags(n, 3), n)]
    enum_phase("n<=3: all DAGs x all weak orderings", small, "full", "full", 8)
    n4 = timed(E.dags(4, 3), 4)
    if len(n4) != E.dag_count(4, 3) * E.weak_ordering_count(4):
        raise HarnessError("enumerator count mismatch")
    if q:
        enum_phase("n=4: all DAGs (<=3 parents) x all 75 weak orderings", n4, "full", "lite", 10)
        n5 = [(d, r) for d in E.canonical_dags(5, 2) for r in extreme_orders(5)]
        enum_phase("n=5: one DAG per isomorphism class (<=2 parents) x {all-equal, increasing, decreasing}", n5, "mid", "min", 20)
        gitset = small
        gwide = True
    else:
        enum_phase("n=4: all DAGs (<=3 parents) x all 75 weak orderings", n4, "full", "full", 4)
        po = [tg for n in (3, 4) for tg in timed(permuted_parent_dags(n, 3), n)]
        enum_phase("n<=4: every non-ascending parent order of every DAG x all weak orderings", po, "pairs", "order", 20)
        n5 = timed(E.canonical_dags(5, 2), 5)
        enum_phase("n=5: one DAG per isomorphism class (<=2 parents) x all 541 weak orderings", n5, "mid", "min1", 20)
        n6 = [(d, r) for d in E.canonical_dags(6, 2)
              for r in list(E.weak_orderings(6, N6_LEVELS)) + extreme_orders(6)[1:]]
        enum_phase("n=6: one DAG per isomorphism class (<=2 parents) x weak orderings with <=%d levels + increasing + decreasing"
                   % N6_LEVELS, n6, "pairs", "none", 200)
        gitset = small + n4
        gwide = False
    dn, dcross = (7, False) if q else (8, True)
    deep = []
    plateaus = plateau_clocks(dn, 3)
    plain = set(two_chain_histories(dn, False))
    for d in two_chain_histories(dn, dcross):
        deep.append((d, tuple(range(dn))))  # strictly increasing clock
        deep.append((d, tuple(i // 2 for i in range(dn))))  # consecutive commits share a second
        for r in plateaus:  # long runs of commits within one second (ties at a since/until boundary)
            if d in plain or max(r) < 1:  # (histories with a cross merge: only the all-equal plateau)
                deep.append((d, r))
    deep = ctx.order(sorted(set(deep)))
    label = ("deep: two-chain histories with %d commits (every fork point, every interleaving%s) x {distinct, pairwise-tied, "
             "every plateau clock with <=3 levels%s} monotone clocks"
             % (dn, ", <=1 cross merge" if dcross else "", " (only all-equal for histories with a cross merge)" if dcross else ""))
    phases.append((label, [("deep", part, None) for part in split(deep, max(J * 3, len(deep) // 50))]))
    bounds[label] = {"timed_graphs": len(deep), "walks": "tips x (none|every single exclude) x {date, topo, max_entries 1|3 date, 2 topo}; since/until at every level"}
    tied = ctx.order(tied_histories(q))
    label = ("tied: every two-chain history with 8 commits + single chains with 9%s commits, all commits in one second, "
             "object id of each tip forced first / last" % ("" if q else ", 10"))
    phases.append((label, [("tied", part, None) for part in split(tied, J * 2)]))
    bounds[label] = {"histories": len(tied), "walks": "include = every commit | all tips, exclude = each tip, unlimited + max_entries rows"}
    octo = []
    for d in octopus_histories():
        n = len(d)
        octo += [(d, tuple(range(n)), "tips"), (d, (0,) * n, "all"), (d, tuple(reversed(range(n))), "tips")]
    octo = ctx.order(octo)
    label = "octopus: histories with 2-3 octopus merges x {increasing, all-equal, decreasing} clocks, commit-graph written by dulwich (and by C git)"
    phases.append((label, [("cgw", part, None) for part in split(octo, J * 2)]))
    bounds[label] = {"histories": len(octopus_histories()), "runs": len(octo)}
    gitems = ctx.order(gitset)
    gt = [("git", part, gwide) for part in split(gitems, max(J, len(gitems) // 40))]
    phases.append(("C git + commit-graph", gt))
    bounds["C git + commit-graph: n<=%d all DAGs x all weak orderings" % (3 if q else 4)] = {"timed_graphs": len(gitset)}

    for label, tasks in phases:
        pmap_acc(work, ctx.order(tasks), ctx.acc, jobs=ctx.jobs)
        ctx.acc.note("t_after[%s]" % label.split(":")[0], round(ctx.elapsed(), 1))

    n = ctx.acc.n
    total = sum(v for k, v in n.items() if k.startswith("q_")) + n.get("git_queries", 0) + n.get("cg_queries", 0)
    ctx.level = "exploration"
    classes = ctx.acc.classes
    # vacuity guard: the interesting outcome classes must have occurred
    need = ["cff:True:skew", "cff:False:skew", "fmb:1-other:|mb|=2:skew", "fmb:1-other:|mb|=2:strict",
            "walk:topo:exc:skew:ok", "walk:date:exc:strict:ok", "walk:date:since:strict:ok",
            "git:rl:agrees", "git:mb:agrees", "git:rev-list:date-order-same", "walk:date:exc+max:ties:ok"]
    absent = [c for c in need if c not in classes]
    if absent and not ctx.acc.viol:  # (with violations on the table the run is not vacuous anyway)
        raise HarnessError("vacuity guard: outcome classes never observed: %r" % absent)
    ctx.coverage.update(
        evaluations=total,
        distinct_nontrivial=len([c for c in classes if not c.endswith(":ok")]),
        outcome_classes=dict(sorted(classes.items())),
        rule=(
            "E4 bounded-exhaustive: every timed graph of each listed family (DAG in topological numbering x weak "
            "ordering of the commit timestamps, ties included) is built from real Commit objects in a MemoryRepo and "
            "queried through can_fast_forward / find_merge_base / find_octopus_base / independent for every query "
            "tuple of the profile and through repo.get_walker for every (include<=2, exclude<=1|2) x option row "
            "(order, reverse, max_entries, since/until at every timestamp level). Oracle: brute-force closure on the "
            "explicit DAG; C git on the identical objects validates the oracle. evaluations = dulwich queries + git "
            "queries + commit-graph differential queries; distinct_nontrivial = observed outcome classes other than "
            "plain 'ok' rows."
        ),
        exhaustive=True,
        bounds=bounds,
    )
    ctx.assumptions += [
        "reference model engines/refmodels/dag.py (transitive closure by relaxation) — validated against C git 2.39.5 "
        "on every timed graph of the git family (disagreement is a HarnessError)",
        "'monotone' = no parent newer than its child (ties allowed, reported as their own clock class 'ties'); under "
        "'skew' the exclude/since/until/max_entries cut-offs of the walker are only required to be sound",
        "since/until are inclusive bounds (as in git rev-list --max-age/--min-age, checked against git on monotone clocks)",
        "timestamp ties are broken by object id inside dulwich; the id order is a function of the enumerated content "
        "and is not itself enumerated",
        "n>=5 families use one labelled representative per DAG isomorphism class (with all weak orderings of its "
        "nodes); grafts/shallow/paths/follow are off",
    ]


def replay(ctx, obj):
    import sys

    return replay_generic(sys.modules[__name__], ctx, obj)
