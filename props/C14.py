"""C14 — optional acceleration data (commit-graph, multi-pack-index, pack bitmaps, packed-refs, the
pack index version) never changes the answer to any query; stale / foreign acceleration files are
ignored or rejected rather than trusted.

Bounded-exhaustive exploration (E4 histories, E3-style directory states with snapshot/restore,
E5 single-fault damage):

  history   every labelled DAG with n commits (engines/enumerate.dags, <=3 parents); commit i adds one
            blob (odd i: inside a sub-directory) to the union of its ancestors' files, so reachable
            object sets overlap but differ per commit; an annotated tag on the root commit, a
            lightweight tag on the last commit, one branch per childless commit, symbolic HEAD.
  layout    loose | one pack | two disjoint packs | pack + loose | two overlapping packs, and the
            one-pack layout written with pack index version 1 / 2 / 3.
  accel     every subset of {commit-graph, multi-pack-index, bitmap, packed-refs}; each member written
            by dulwich's public writers and by C git (`git commit-graph write --reachable`,
            `git multi-pack-index write`, `git repack -adb`, `git pack-refs --all`); bitmap with and
            without name-hash cache / lookup table.
  step      (staleness) after the accelerators are written the history continues with ONE builder
            step — new loose commit, new pack, repack, pack_loose_objects, gc, deleted ref (+gc),
            moved ref (+gc), re-pointed annotated tag (+gc), repack(exclude=...), deleted tag + gc —
            and the files stay.
  foreign   each accelerator file copied from every other fixture repository (ordered pairs).
  damage    every truncation / byte set to 00,FF,+1,-1 (thorough: / single-bit flip) of each file, each
            mutant evaluated inside the E6 sandbox (a killed or spinning worker is an observation).
  mode      the battery is answered by a freshly opened Repo ("fresh"), by a long-lived Repo object
            that wrote the accelerators / answered the battery before another Repo object performed
            the step ("live": in-memory copies of the accelerators), and — "live-first" — by forked
            copies of that warmed-up process, one per query, so that every query in turn is the FIRST
            thing the cached state is asked after the foreign step.
  octopus   named histories with 2-3 octopus merges (5-6 commits) for the commit-graph writers.
  twins     foreign files between repositories whose packs have the same names but other offsets.

Oracle = the statement: the fixed query battery (object lookup, membership, iteration, parents,
merge-base / fast-forward, walks, find_shallow / get_depth, graph-walker, MissingObjectFinder,
reachability provider, refs / peeled values) gives the same answers as on the same history without
any acceleration data (reference run: loose objects, loose refs, freshly opened).  For foreign and
damaged files the accelerated run may instead *reject* (an exception that is not itself an answer
of the query); it may never answer differently.  The reference run itself is validated against a
trivial model (dict of refs, explicit DAG, known object set) — a disagreement is a HarnessError.

Violation keys:  <accel>[<writer>][@<pack layout class>]:<scenario>:<query family>:<predicate>
  accel     cg | midx | bitmap | prefs | idx-v1 | idx-v3 | layout-<name> | combo(<a+b>)
  writer    d / d-all / d-tips / d00 / d01 / d10 = dulwich's writers, g = C git, by-gc = written by gc itself
  scenario  fresh | stale-grow|relayout|refs|refs-repacked|shrink (class of the step) | foreign |
            damaged@<chunk>, with "+live" for the long-lived Repo object
  query     the battery entry family (contains, getitem, parents, reach_objects, mof, refs.get_peeled ...)
            or "step" / "write" when the continuation step / the writer itself raised
  predicate how the two answers differ (answer-vs-KeyError, raises-X, True-vs-False, superset, subset,
            other-set, other-order, tag-vs-commit ...; parents: + @root|single-parent|merge|octopus)
"""

from __future__ import annotations

import os
import shutil
import sys
import zlib

from engines import enumerate as E
from engines import mutfault as MF
from engines import statespace as SS
from engines.common import Acc, HarnessError, fresh_dir, git, replay_generic, rmtree, rp, split

BASE = 1_000_000_000
STEP = 1000
BOGUS = b"0123456789abcdef0123456789abcdef01234567"  # never an object

ACCELS = ("cg", "midx", "bitmap", "prefs")

# --------------------------------------------------------------------------- history


class Hist:
    """All objects of one history (never touches a repository)."""

    __slots__ = ("dag", "n", "objs", "commits", "trees", "subs", "blobs", "common", "tag", "tag2", "x", "xtree",
                 "xblob", "own", "tips", "anc", "universe", "name", "ids", "families")


_HMEMO = {}


def _blob(data):
    from dulwich.objects import Blob

    return Blob.from_string(data)


def _commit(tree_id, parents, i, msg):
    from dulwich.objects import Commit

    c = Commit()
    c.tree = tree_id
    c.parents = list(parents)
    c.author = c.committer = b"V <v@example.com>"
    c.commit_time = c.author_time = BASE + STEP * i
    c.commit_timezone = c.author_timezone = 0
    c.message = msg
    return c


def _tag(name, target, i):
    from dulwich.objects import Commit, Tag

    t = Tag()
    t.name = name
    t.tagger = b"V <v@example.com>"
    t.tag_time = BASE + STEP * i
    t.tag_timezone = 0
    t.message = b"tag " + name + b"\n"
    t.object = (Commit, target)
    return t


def _trees(files, blobs_by_name):
    """root tree (+ optional sub tree 'd') for a set of file numbers; odd numbers live in d/."""
    from dulwich.objects import Tree

    root = Tree()
    sub = Tree()
    root.add(b"c", 0o100644, blobs_by_name["c"].id)
    for j in sorted(files, key=str):
        nm = (b"f%d" % j) if isinstance(j, int) else j
        b = blobs_by_name[j]
        if isinstance(j, int) and j % 2:
            sub.add(nm, 0o100644, b.id)
        else:
            root.add(nm, 0o100644, b.id)
    if len(sub):
        root.add(b"d", 0o40000, sub.id)
        return root, sub
    return root, None


def history(dag, salt=b"", families=None) -> Hist:
    """families: default restriction of the battery for this history (None = the whole battery)."""
    dag = tuple(tuple(p) for p in dag)
    key = (dag, salt, None if families is None else tuple(sorted(families)))
    if key in _HMEMO:
        return _HMEMO[key]
    h = Hist()
    h.families = None if families is None else frozenset(families)
    h.dag, h.n = dag, len(dag)
    n = h.n
    for i, ps in enumerate(dag):
        if any(p >= i or p < 0 for p in ps) or len(set(ps)) != len(ps):
            raise HarnessError("not a DAG in topological numbering: %r" % (dag,))
    h.anc = E.ancestors(dag)
    bl = {"c": _blob(b"common " + salt + b"\n")}
    for i in range(n):
        bl[i] = _blob(b"blob %d %s\n" % (i, salt))
    bl[b"x"] = _blob(b"blob x %s\n" % salt)
    h.common = bl["c"]
    h.blobs = [bl[i] for i in range(n)]
    h.commits, h.trees, h.subs = [], [], []
    objs = {}
    own = [[] for _ in range(n)]

    def put(o, owner):
        if o.id not in objs:
            objs[o.id] = o
            if owner is not None:
                own[owner].append(o.id)

    put(h.common, 0)
    for i, ps in enumerate(dag):
        files = set(E.bits(h.anc[i]))
        root, sub = _trees(files, bl)
        c = _commit(root.id, [h.commits[p].id for p in ps], i, b"c%d %s\n" % (i, salt))
        h.commits.append(c)
        h.trees.append(root)
        h.subs.append(sub)
        put(bl[i], i)
        if sub is not None:
            put(sub, i)
        put(root, i)
        put(c, i)
    h.tag = _tag(b"t", h.commits[0].id, 50)
    put(h.tag, 0)
    # objects of the continuation steps (absent until a step adds them)
    files = set(E.bits(h.anc[n - 1])) | {b"x"}
    xroot, xsub = _trees(files, bl)
    h.xtree, h.xblob = xroot, bl[b"x"]
    h.x = _commit(xroot.id, [h.commits[n - 1].id], n, b"x %s\n" % salt)
    h.tag2 = _tag(b"t", h.commits[n - 1].id, 60)
    h.objs = objs
    h.own = own
    ch = E.children(dag)
    h.tips = [i for i in range(n) if not ch[i]]
    extra = {o.id: o for o in (h.x, h.xtree, h.xblob, h.tag2)}
    if xsub is not None and xsub.id not in objs:
        extra[xsub.id] = xsub
    h.universe = sorted(set(objs) | set(extra) | {BOGUS})
    h.ids = dict(objs)
    h.ids.update(extra)
    h.name = " ".join("%d<-%s" % (i, ",".join(map(str, ps)) or "root") for i, ps in enumerate(dag))
    if len(h.universe) != len(objs) + len(extra) + 1:
        raise HarnessError("id collision in history")
    _HMEMO.clear()
    _HMEMO[key] = h
    return h


def initial_refs(h: Hist):
    r = {}
    for t in h.tips:
        r[b"refs/heads/b%d" % t] = h.commits[t].id
    r[b"refs/tags/t"] = h.tag.id
    r[b"refs/tags/l"] = h.commits[h.n - 1].id
    return r


HEAD_TARGET = lambda h: b"refs/heads/b%d" % (h.n - 1)

# --------------------------------------------------------------------------- layouts

LAYOUTS = ("loose", "pack1", "pack2", "mixed", "pack2o", "pack1-v1", "pack1-v3")


def _open(path):
    from dulwich.repo import Repo

    return Repo(path)


def build_layout(h: Hist, layout, path, reverse=False):
    """Create the bare repository for `h` in `path` with the given physical layout; loose refs.
    reverse: hand the objects of every pack to add_objects() in the opposite order — dulwich names a
    pack after the SET of its object ids, so the pack gets the same name and another layout."""
    from dulwich.repo import Repo

    os.makedirs(path)
    r = Repo.init_bare(path)
    try:
        if layout.startswith("pack1-v"):
            cfg = r.get_config()
            cfg.set((b"pack",), b"indexVersion", layout[-1].encode())
            cfg.write_to_path()
            r.close()
            r = Repo(path)
            if r.object_store.pack_index_version != int(layout[-1]):
                raise HarnessError("pack.indexVersion not honoured by from_config")
        st = r.object_store
        k = (h.n + 1) // 2
        first = [oid for i in range(k) for oid in h.own[i]]
        rest = [oid for i in range(k, h.n) for oid in h.own[i]]
        allids = first + rest

        def pack(ids):
            if ids:
                st.add_objects([(h.objs[i], None) for i in (reversed(ids) if reverse else ids)])

        def loose(ids):
            for i in ids:
                st.add_object(h.objs[i])

        if layout == "loose":
            loose(allids)
        elif layout.startswith("pack1"):
            pack(allids)
        elif layout == "pack2":
            pack(first)
            pack(rest)
        elif layout == "mixed":
            pack(first)
            loose(rest)
        elif layout == "pack2o":
            pack(first)
            pack(allids)
        else:
            raise AssertionError(layout)
        for name, val in initial_refs(h).items():
            r.refs[name] = val
        r.refs.set_symbolic_ref(b"HEAD", HEAD_TARGET(h))
    finally:
        r.close()


def step_applicable(h: Hist, step):
    """repack-excl leaves the last commit out of the repack; with a single commit the annotated tag
    would be left dangling (a corrupt repository, not a stale accelerator)."""
    return not (step == "repack-excl" and h.n == 1)


def layout_applicable(h: Hist, layout):
    if layout in ("pack2", "mixed", "pack2o"):
        return h.n >= 2
    return True


# --------------------------------------------------------------------------- accelerator writers

# writer variants per accelerator: name -> callable(path, repo_or_None) ; a live Repo may be passed
WRITERS = {
    "cg": ("d", "d-all", "d-tips", "g"),
    "midx": ("d", "g"),
    "bitmap": ("d", "d00", "d01", "d10", "g"),
    "prefs": ("d", "g"),
}
GIT_WRITERS_REWRITE_LAYOUT = {("bitmap", "g")}


def accel_files(path):
    """Relative paths of the acceleration files currently present (packed-refs excluded)."""
    out = []
    p = os.path.join(path, "objects", "info", "commit-graph")
    if os.path.exists(p):
        out.append("objects/info/commit-graph")
    d = os.path.join(path, "objects", "info", "commit-graphs")
    if os.path.isdir(d):
        out.append("objects/info/commit-graphs")
    pd = os.path.join(path, "objects", "pack")
    if os.path.isdir(pd):
        for f in sorted(os.listdir(pd)):
            if f.startswith("multi-pack-index") or f.endswith(".bitmap") or f.endswith(".rev"):
                out.append("objects/pack/" + f)
    return out


def write_accel(path, acc_name, variant, repo=None):
    """Write one accelerator into the repository at `path`.  `repo`: live Repo object to use for the
    dulwich writers (None: a fresh one is opened and closed).  Returns True if a file was produced."""
    before = set(accel_files(path))
    pr = os.path.join(path, "packed-refs")
    pr_before = open(pr, "rb").read() if os.path.exists(pr) else None
    if variant.startswith("g"):
        if repo is not None:
            raise HarnessError("git writers are never 'live'")
        if acc_name == "cg":
            git(["commit-graph", "write", "--reachable"], cwd=path)
        elif acc_name == "midx":
            pd = os.path.join(path, "objects", "pack")
            if os.path.isdir(pd) and any(f.endswith(".pack") for f in os.listdir(pd)):
                git(["multi-pack-index", "write"], cwd=path)  # (git refuses when there is no pack)
        elif acc_name == "bitmap":
            git(["-c", "pack.writeBitmapHashCache=true", "-c", "pack.writeBitmapLookupTable=true",
                 "repack", "-a", "-d", "-b", "-q"], cwd=path)
        elif acc_name == "prefs":
            git(["pack-refs", "--all"], cwd=path)
    else:
        own = repo is None
        r = _open(path) if own else repo
        try:
            st = r.object_store
            if acc_name == "cg":
                if variant == "d":
                    st.write_commit_graph(list(r.refs.as_dict().values()), reachable=True)  # == porcelain
                elif variant == "d-all":
                    st.write_commit_graph()
                elif variant == "d-tips":
                    st.write_commit_graph(list(r.refs.as_dict().values()), reachable=False)
                else:
                    raise AssertionError(variant)
            elif acc_name == "midx":
                st.write_midx()
            elif acc_name == "bitmap":
                if variant == "d":
                    st.generate_pack_bitmaps(r.refs.as_dict())  # == porcelain.repack(write_bitmaps=True)
                else:
                    from dulwich.bitmap import generate_bitmap, write_bitmap

                    hc, lt = variant[1] == "1", variant[2] == "1"
                    for p in st.packs:
                        bm = generate_bitmap(p.index, st, r.refs.as_dict(), p.get_stored_checksum(),
                                             include_hash_cache=hc, include_lookup_table=lt)
                        write_bitmap(p._bitmap_path, bm)
            elif acc_name == "prefs":
                r.refs.pack_refs(all=True)
        finally:
            if own:
                r.close()
    if acc_name == "prefs":
        now = open(pr, "rb").read() if os.path.exists(pr) else None
        return now is not None and now != pr_before
    return set(accel_files(path)) != before or acc_name == "bitmap" and variant == "g"


# --------------------------------------------------------------------------- continuation steps

STEPS = ("commit", "pack", "repack", "pack-loose", "gc", "delref", "delref+gc", "moveref", "moveref+gc",
         "retag", "retag+gc", "repack-excl", "deltag+gc")


def _moveref_target(h: Hist):
    """The last branch is moved back to the first parent of its commit (or, for a root, deleted)."""
    ps = h.dag[h.n - 1]
    return h.commits[ps[0]].id if ps else None


def apply_step(h: Hist, step, path):
    """Run one continuation step with a fresh Repo object (the refs model is model_state())."""
    from dulwich.gc import garbage_collect

    last = b"refs/heads/b%d" % (h.n - 1)
    r = _open(path)
    try:
        st = r.object_store
        if step == "commit":
            for o in (h.xblob, h.xtree, h.x):
                st.add_object(o)
            for o in _xsub(h):
                st.add_object(o)
            r.refs[last] = h.x.id
        elif step == "pack":
            st.add_objects([(o, None) for o in [h.xblob, h.xtree, h.x] + _xsub(h)])
            r.refs[last] = h.x.id
        elif step == "repack":
            st.repack()
        elif step == "pack-loose":
            st.pack_loose_objects()
        elif step == "gc":
            garbage_collect(r, grace_period=None)
        elif step in ("delref", "delref+gc"):
            del r.refs[last]
            del r.refs[b"refs/tags/l"]
            if step.endswith("+gc"):
                garbage_collect(r, grace_period=None)
        elif step in ("moveref", "moveref+gc"):
            tgt = _moveref_target(h)
            del r.refs[b"refs/tags/l"]
            if tgt is None:
                del r.refs[last]
            else:
                r.refs[last] = tgt
            if step.endswith("+gc"):
                garbage_collect(r, grace_period=None)
        elif step in ("retag", "retag+gc"):
            st.add_object(h.tag2)
            r.refs[b"refs/tags/t"] = h.tag2.id
            if step.endswith("+gc"):
                garbage_collect(r, grace_period=None)  # prunes the old tag object, packs the refs again
        elif step == "deltag+gc":
            del r.refs[b"refs/tags/t"]
            garbage_collect(r, grace_period=None)
        elif step == "repack-excl":
            # what gc does, reduced to one object: the last commit loses its refs and is left out of the repack
            del r.refs[last]
            del r.refs[b"refs/tags/l"]
            st.repack(exclude={h.commits[h.n - 1].id})
        else:
            raise AssertionError(step)
    finally:
        r.close()


def _xsub(h: Hist):
    """sub tree of the continuation commit if it is a new object."""
    out = []
    for e in h.xtree.items():
        if e.path == b"d" and e.sha not in h.objs:
            out.append(h.ids[e.sha])
    return out


# --------------------------------------------------------------------------- query battery


class _Timeout(BaseException):
    pass


_SKIPPED = "!!not-run"  # (after a query of the same battery did not terminate; never compared)
_EVER_TIMED_OUT = [0]
_TIMED_OUT = [0]  # queries of the running battery that hit the limit; afterwards the rest of that battery is not executed
QUERY_CPU_LIMIT = 20.0  # seconds of CPU time (not wall time: the box may be loaded) for ONE query; the whole battery takes < 1 s


def _on_vtalrm(signum, frame):
    raise _Timeout()


def _ans(fn):
    """Outcome of one query: the canonical answer, or '!ExcType' for an ordinary exception
    ('!!ExcType' for resource exhaustion, '!!does-not-terminate' when the query burns more than QUERY_CPU_LIMIT seconds
    of CPU time - e.g. an ancestry walk over a parent cycle that a wrong commit-graph created)."""
    import signal
    import threading

    armed = False
    if _TIMED_OUT[0]:
        return _SKIPPED
    if threading.current_thread() is threading.main_thread():
        try:
            signal.signal(signal.SIGVTALRM, _on_vtalrm)
            # once a query of this worker process has hit the limit, later batteries get a short fuse (3 s of CPU)
            signal.setitimer(signal.ITIMER_VIRTUAL, 3.0 if _EVER_TIMED_OUT[0] else QUERY_CPU_LIMIT)
            armed = True
        except (ValueError, OSError):
            armed = False
    try:
        return fn()
    except _Timeout:
        _TIMED_OUT[0] += 1
        _EVER_TIMED_OUT[0] += 1
        return "!!does-not-terminate"
    except (MemoryError, RecursionError) as e:
        return "!!" + type(e).__name__
    except Exception as e:
        n = type(e).__name__
        return "!" + (n if n != "error" else type(e).__module__ + ".error")  # (zlib.error, struct.error, binascii.error ...)
    finally:
        if armed:
            signal.setitimer(signal.ITIMER_VIRTUAL, 0)


def battery(h: Hist, repo, families=None, extra_ids=(), only=None, list_only=False):
    """Run the fixed battery on an open Repo; returns {query-key: canonical answer}.  query-key is
    (family, args...) with short labels (c0, t1, b2, T, X ...) instead of ids, so keys are stable.
    `families`: optional set restricting the battery (damage phase, the octopus family; default
    h.families).  `only`: predicate on the query key — nothing else is executed, not even set-up code
    (live-first mode: ONE query on a long-lived Repo).  list_only: return {key: None} without
    executing anything."""
    from dulwich.graph import can_fast_forward, find_merge_base
    from dulwich.object_store import MissingObjectFinder, find_shallow, get_depth

    st = repo.object_store if not list_only else None
    out = {}
    label = _labels(h)
    if families is None:
        families = h.families
    _TIMED_OUT[0] = 0

    def put(key, fn):
        if only is not None and not only(key):
            return
        out[key] = None if list_only else _ans(fn)

    def L(x):
        if x is None:
            return None
        v = label.get(x)
        return v if v is not None else "?" + (x.decode("ascii", "replace") if isinstance(x, bytes) else repr(x))

    def S(it):
        return tuple(sorted(L(x) for x in it))

    def want(f):
        return families is None or f in families

    # ---- object lookup (extra_ids: objects of ANOTHER repository, labelled F0, F1, ... — foreign scenario)
    if extra_ids:
        label = dict(label)
        for k, oid in enumerate(extra_ids):
            label.setdefault(oid, "F%d" % k)
    for oid in list(h.universe) + [x for x in extra_ids if x not in h.ids and x != BOGUS]:
        lb = label[oid]
        if want("getitem"):
            def getitem(oid=oid):
                o = st[oid]
                return (o.type_name, zlib.crc32(o.as_raw_string()), o.id == oid)

            put(("getitem", lb), getitem)
        if want("contains"):
            put(("contains", lb), lambda oid=oid: oid in st)
        if want("get_raw"):
            put(("get_raw", lb), lambda oid=oid: (lambda t: (t[0], zlib.crc32(t[1])))(st.get_raw(oid)))
    if want("iter"):
        put(("iter",), lambda: S(set(st)))
    # ---- parents
    cids = [c.id for c in h.commits] + [h.x.id, BOGUS]
    cl = [label[c] for c in cids]
    if want("parents"):
        ex = [x for x in extra_ids if x not in h.ids and x != BOGUS]
        for c, lb in zip(cids + ex, cl + [label[x] for x in ex]):
            put(("parents", lb), lambda c=c: tuple(L(p) for p in repo.parents_provider().get_parents(c)))
    # ---- ancestry
    for a, la in zip(cids, cl):
        for b, lb in zip(cids, cl):
            if "Z" in (la, lb) and not {la, lb} <= {"Z", "c0"}:
                continue  # the never-existing id is paired with itself and with the root only
            if want("can_ff"):
                put(("can_ff", la, lb), lambda a=a, b=b: bool(can_fast_forward(repo, a, b)))
            if la <= lb and want("merge_base"):
                put(("merge_base", la, lb), lambda a=a, b=b: S(find_merge_base(repo, [a, b])))
    # ---- walks: every single start and all branch tips together; every single exclusion
    present = [c.id for c in h.commits] + [h.x.id]
    tips = [h.commits[t].id for t in h.tips]
    incs = [(c,) for c in present] + ([tuple(tips)] if len(tips) > 1 else [])
    if want("walk"):
        for inc in incs:
            for exc in [()] + [(c,) for c in present if c not in inc]:
                for order in ("date", "topo") if not exc else ("date",):
                    put(("walk" if not exc else "walk+excl", tuple(label[x] for x in inc), tuple(label[x] for x in exc), order), 
                        lambda inc=inc, exc=exc, order=order: tuple(
                            L(e.commit.id) for e in repo.get_walker(include=list(inc), exclude=list(exc) or None, order=order)))
    # ---- shallow / depth / graph walker
    shallow_from = {h.commits[0].id, h.x.id} | {h.commits[t].id for t in h.tips}
    for c, lb in zip(cids[:-1], cl[:-1]):
        if want("find_shallow") and c in shallow_from:
            for depth in range(1, h.n + 2):
                def fs(c=c, depth=depth):
                    s, ns = find_shallow(st, [c], depth)
                    return (S(s), S(ns))

                put(("find_shallow", lb, depth), fs)
        if want("get_depth"):
            put(("get_depth", lb), lambda c=c: get_depth(st, c))

    def gw():
        w = repo.get_graph_walker()
        seq = []
        while True:
            x = next(w)
            if x is None:
                break
            seq.append(L(x))
            if len(seq) > 50:
                return "unbounded"
        return tuple(seq)

    if want("graph_walker"):
        put(("graph_walker",), gw)
    # ---- transfer: MissingObjectFinder for every (downset as haves, want)
    if want("mof"):
        wants = [(label[c.id], c.id) for c in h.commits] + [("T", h.tag.id), ("X", h.x.id)]
        for ds in E.downsets(h.dag):
            mx = [i for i in ds if not any(i in h.dag[j] for j in ds)]
            haves = [h.commits[i].id for i in mx]
            hl = tuple("c%d" % i for i in mx)
            for wl, w in wants:
                put(("mof", hl, wl), lambda haves=haves, w=w: S(
                    s for s, _ in MissingObjectFinder(st, haves=haves, wants=[w])))
        put(("mof", ("X",), "c%d" % (h.n - 1)), lambda: S(
            s for s, _ in MissingObjectFinder(st, haves=[h.x.id], wants=[h.commits[h.n - 1].id])))
        put(("mof", ("T",), "c%d" % (h.n - 1)), lambda: S(
            s for s, _ in MissingObjectFinder(st, haves=[h.tag.id], wants=[h.commits[h.n - 1].id])))

    # ---- reachability provider: single heads, pairs of (tips + X); no / every single exclusion
    def prov():
        return st.get_reachability_provider()

    tipx = tips + [h.x.id]
    headsets = [(c,) for c in present] + [p for p in E.subsets(tipx, 2, 2)]
    for heads in headsets:
        hl = tuple(label[x] for x in heads)
        for exc in [None] + [(x,) for x in present]:
            el = None if exc is None else tuple(label[x] for x in exc)
            sfx = "" if exc is None else "+excl"
            if want("reach_commits"):
                put(("reach_commits" + sfx, hl, el), lambda heads=heads, exc=exc: S(
                    prov().get_reachable_commits(list(heads), exclude=list(exc) if exc else None)))
            if want("reach_objects"):
                put(("reach_objects" + sfx, hl, el), lambda heads=heads, exc=exc: S(
                    prov().get_reachable_objects(list(heads), exclude_commits=list(exc) if exc else None)))
    # ---- refs
    if want("refs"):
        rf = None if list_only else repo.refs
        put(("refs.as_dict",), lambda: tuple(sorted((k, L(v)) for k, v in rf.as_dict().items())))
        put(("refs.keys",), lambda: tuple(sorted(rf.keys())))
        put(("refs.as_dict", b"refs/heads"), lambda: tuple(sorted((k, L(v)) for k, v in rf.as_dict(b"refs/heads").items())))
        put(("refs.as_dict", b"refs/tags"), lambda: tuple(sorted((k, L(v)) for k, v in rf.as_dict(b"refs/tags").items())))
        names = sorted(set(initial_refs(h)) | {b"HEAD", b"refs/heads/nope"})
        for nm in names:
            put(("refs.get", nm), lambda nm=nm: L(rf[nm]))
            put(("refs.contains", nm), lambda nm=nm: nm in rf)
            put(("refs.read_ref", nm), lambda nm=nm: L(rf.read_ref(nm)) if not (rf.read_ref(nm) or b"").startswith(b"ref:") else rf.read_ref(nm))
            put(("get_peeled", nm), lambda nm=nm: L(repo.get_peeled(nm)))
            put(("refs.get_peeled", nm), lambda nm=nm: L(rf.get_peeled(nm)))
        put(("head",), lambda: L(repo.head()))
    return out


_LMEMO = [None, None]


def _labels(h: Hist):
    if _LMEMO[0] is h:
        return _LMEMO[1]
    lb = {BOGUS: "Z"}
    for i, c in enumerate(h.commits):
        lb[c.id] = "c%d" % i
        lb[h.trees[i].id] = "t%d" % i
        lb[h.blobs[i].id] = "b%d" % i
    for i, s in enumerate(h.subs):
        if s is not None and s.id not in lb:
            lb[s.id] = "s%d" % i
    lb[h.common.id] = "bc"
    lb[h.tag.id] = "T"
    lb[h.tag2.id] = "T2"
    lb[h.x.id] = "X"
    lb[h.xtree.id] = "tX"
    lb[h.xblob.id] = "bX"
    for oid in h.universe:
        if oid not in lb:
            raise HarnessError("unlabelled object in universe")
    _LMEMO[0], _LMEMO[1] = h, lb
    return lb


# --------------------------------------------------------------------------- comparing two answers

REJECT_IS_ANSWER = {"KeyError"}  # "not there" is an answer of a lookup, not a rejection of the file


def _is_exc(v):
    return isinstance(v, str) and v.startswith("!")


def predicate(ref, got):
    """How `got` (accelerated) differs from `ref` (plain) — a stable, input-independent phrase."""
    if _is_exc(got):
        return "raises-%s" % got.lstrip("!")
    if _is_exc(ref):
        return "answer-vs-%s" % ref[1:]
    if isinstance(ref, bool) or isinstance(got, bool) or ref is None or got is None:
        return "%s-vs-%s" % (_kind(got), _kind(ref))
    if isinstance(ref, str) and isinstance(got, str):  # one object label (peeled value, ref value, head)
        return "%s-vs-%s" % (_kind(got), _kind(ref))
    if isinstance(ref, int) and isinstance(got, int):
        return "larger" if got > ref else "smaller"
    if isinstance(ref, tuple) and isinstance(got, tuple):
        if len(ref) == 2 and ref and isinstance(ref[0], tuple) and ref[0] and isinstance(ref[0][0], bytes):
            pass
        try:
            sr, sg = set(ref), set(got)
        except TypeError:
            return "other-value"
        if sr == sg:
            return "other-order" if len(ref) == len(got) else "other-multiplicity"
        if sg > sr:
            return "superset"
        if sg < sr:
            return "subset"
        return "other-set"
    return "other-value"


def _kind(v):
    """Object label -> its kind (keys must not contain concrete node numbers)."""
    if isinstance(v, str):
        if v in ("T", "T2"):
            return "tag"
        if v == "X" or (v[0] == "c" and v[1:].isdigit()):
            return "commit"
        if v.startswith("?"):
            return "unknown-id"
        return "object"
    return str(v)


def _pred_detail(fam, pred, ref):
    """parents: the kind of commit asked about is part of the class (an octopus is encoded differently
    from a two-parent merge in a commit-graph)."""
    if fam == "parents" and isinstance(ref, tuple):
        return pred + "@" + ("root", "single-parent", "merge", "octopus")[min(len(ref), 3)]
    if fam in ("getitem", "get_raw") and isinstance(ref, tuple) and not pred.startswith("raises-"):
        return "other-content"  # (type, checksum of the bytes) of another object / of garbage
    return pred


def diff(ref, got):
    """{query: (ref answer, got answer)} for the queries whose answers differ.

    refs.get_peeled() is the cache-level API whose contract allows None = "not known": a None is
    never a deviation, a value is compared with the reference run's *repo-level* get_peeled()."""
    if set(ref) != set(got):
        raise HarnessError("batteries asked different questions")
    out = {}
    for q in ref:
        r, g = ref[q], got[q]
        if g == _SKIPPED or r == _SKIPPED:
            continue
        if q[0] == "refs.get_peeled":
            if g is None:
                continue
            r = ref[("get_peeled",) + q[1:]]
        if r != g:
            out[q] = (r, g)
    return out


def _short(v, n=160):
    s = repr(v)
    return s if len(s) <= n else s[: n - 3] + "..."


def _key(k):
    """Violation keys must survive the runner's 80-character file-name slug unambiguously."""
    if len(k) > 80:
        raise HarnessError("violation key too long: %r" % k)
    return k


STEP_CLASS = {
    None: "fresh",
    "commit": "stale-grow", "pack": "stale-grow",
    "repack": "stale-relayout", "pack-loose": "stale-relayout", "gc": "stale-relayout",
    "delref": "stale-refs", "moveref": "stale-refs", "retag": "stale-refs", "retag+gc": "stale-refs-repacked",
    "delref+gc": "stale-shrink", "moveref+gc": "stale-shrink", "deltag+gc": "stale-shrink", "repack-excl": "stale-shrink",
}


# --------------------------------------------------------------------------- reference model of a history state


def model_state(h: Hist, step):
    """(refs dict, set of labels of the objects that must be in the store) after `step`, computed
    from the explicit DAG only (no dulwich traversal code)."""
    label = _labels(h)
    refs = initial_refs(h)
    last = b"refs/heads/b%d" % (h.n - 1)
    objs = set(h.objs)
    x_objs = {h.x.id, h.xtree.id, h.xblob.id}
    gc = False
    if step in ("commit", "pack"):
        refs[last] = h.x.id
        objs |= x_objs
    elif step in ("delref", "delref+gc"):
        refs.pop(last)
        refs.pop(b"refs/tags/l")
        gc = step.endswith("+gc")
    elif step in ("moveref", "moveref+gc"):
        refs.pop(b"refs/tags/l")
        tgt = _moveref_target(h)
        if tgt is None:
            refs.pop(last)
        else:
            refs[last] = tgt
        gc = step.endswith("+gc")
    elif step in ("retag", "retag+gc"):
        refs[b"refs/tags/t"] = h.tag2.id
        objs.add(h.tag2.id)
        gc = step.endswith("+gc")
    elif step == "deltag+gc":
        refs.pop(b"refs/tags/t")
        gc = True
    elif step == "gc":
        gc = True
    elif step == "repack-excl":
        refs.pop(last)
        refs.pop(b"refs/tags/l")
        objs.discard(h.commits[h.n - 1].id)
    if gc:
        node = {c.id: i for i, c in enumerate(h.commits)}
        keep = set()
        m = 0
        for v in refs.values():
            if v == h.tag.id:
                keep.add(h.tag.id)
                m |= h.anc[0]
            elif v == h.tag2.id:
                keep.add(h.tag2.id)
                m |= h.anc[h.n - 1]
            elif v in node:
                m |= h.anc[node[v]]
        for i in E.bits(m):
            keep.add(h.commits[i].id)
            keep.add(h.trees[i].id)
            if h.subs[i] is not None:
                keep.add(h.subs[i].id)
            keep.add(h.common.id)
            for j in E.bits(h.anc[i]):
                keep.add(h.blobs[j].id)
        objs = keep
    head = refs.get(HEAD_TARGET(h))
    return refs, head, tuple(sorted(label[o] for o in objs))


def validate_reference(h: Hist, step, R):
    """The plain run must agree with the trivial model; otherwise the machinery (or a part of
    dulwich that is not C14's business) is broken and nothing can be concluded."""
    label = _labels(h)
    refs, head, objs = model_state(h, step)
    want = dict((k, label[v]) for k, v in refs.items())
    if head is not None:
        want[b"HEAD"] = label[head]
    got = R[("refs.as_dict",)]
    if got != tuple(sorted(want.items())):
        raise HarnessError("reference run: refs %r, model %r (%s, step %s)" % (got, sorted(want.items()), h.name, step))
    if R[("iter",)] != objs:
        raise HarnessError("reference run: objects %r, model %r (%s, step %s)" % (R[("iter",)], objs, h.name, step))
    present = set(objs)
    for i, ps in enumerate(h.dag):
        a = R[("parents", "c%d" % i)]
        exp = tuple("c%d" % p for p in ps) if "c%d" % i in present else "!KeyError"
        if a != exp:
            raise HarnessError("reference run: parents(c%d)=%r, model %r (%s, step %s)" % (i, a, exp, h.name, step))
    for lb in ("T", "X", "Z", "c0"):
        if (R[("contains", lb)] is True) != (lb in present):
            raise HarnessError("reference run: contains(%s)=%r (%s, step %s)" % (lb, R[("contains", lb)], h.name, step))


# --------------------------------------------------------------------------- one configuration

WRITE_ORDER = ("bitmap", "midx", "cg", "prefs")


def cfg_name(config):
    return "+".join("%s[%s]" % av for av in config) or "none"


def norm_cfg(config):
    config = [tuple(x) for x in config]
    return tuple(sorted(config, key=lambda av: ACCELS.index(av[0])))


def write_config(path, config, repo=None):
    """Write all accelerators of `config`; returns the tuple of those that produced nothing
    (e.g. a multi-pack-index in a repository without packs)."""
    empty = []
    for a in WRITE_ORDER:
        for (aa, v) in config:
            if aa == a:
                live = repo if not v.startswith("g") else None
                try:
                    wrote = write_accel(path, aa, v, live)
                except HarnessError:
                    raise
                except Exception as e:
                    raise WriterFailed("%s[%s]" % (aa, v), type(e).__name__)
                if not wrote:
                    empty.append((aa, v))
    return tuple(empty)


class _Pin:
    """Keep the inode of packed-refs alive while another Repo object replaces the file, so that a
    recycled inode number (tmpfs) cannot make a stale stat key look current (DESIGN 1.3 rule 1)."""

    def __init__(self, path):
        self.fds = []
        p = os.path.join(path, "packed-refs")
        if os.path.exists(p):
            self.fds.append(os.open(p, os.O_RDONLY))

    def close(self):
        for fd in self.fds:
            os.close(fd)
        self.fds = []


def _layout_key(layout):
    return {"pack1-v1": "idx-v1", "pack1-v3": "idx-v3"}.get(layout, "layout-" + layout)


MODE_SUFFIX = {"fresh": "", "live": "+live", "live-first": "+live-first"}
PACK_CLASS = {"loose": "0pack", "pack1": "1pack", "pack1-v1": "1pack", "pack1-v3": "1pack",
              "pack2": "split-packs", "mixed": "pack+loose", "pack2o": "overlapping-packs"}
_GRAPH_DEPS = ("parents", "getitem", "contains")
DEPENDS = {
    "can_ff": _GRAPH_DEPS, "merge_base": _GRAPH_DEPS, "walk": _GRAPH_DEPS, "walk+excl": _GRAPH_DEPS,
    "find_shallow": _GRAPH_DEPS, "get_depth": _GRAPH_DEPS, "graph_walker": _GRAPH_DEPS + ("refs.as_dict",),
    "reach_commits": _GRAPH_DEPS, "reach_commits+excl": _GRAPH_DEPS, "reach_objects": _GRAPH_DEPS,
    "reach_objects+excl": _GRAPH_DEPS, "mof": _GRAPH_DEPS,
    "get_peeled": ("refs.get", "refs.as_dict", "getitem", "refs.get_peeled"),
    "refs.get_peeled": ("refs.get", "refs.as_dict", "getitem"),
    "head": ("refs.get", "refs.as_dict"),
}
# masked only when the sibling family deviates with the *same* predicate in the same run
SIBLING = {"reach_commits+excl": ("reach_commits",), "reach_objects+excl": ("reach_objects", "reach_commits"),
           "reach_objects": ("reach_commits",), "mof": ("reach_commits",), "walk+excl": ("walk",),
           "get_raw": ("getitem",), "parents": ("getitem",)}


def judge(acc: Acc, h: Hist, layout, config, step, mode, A, ref, explain, replay, ref_kind="plain", fresh_seen=None):
    """Compare the accelerated answers A with the reference answers.

    explain     list of (name, answers) of runs with fewer accelerators (none; each single member):
                a deviation that such a run shows identically is theirs, not this configuration's.
    fresh_seen  set of (family, predicate) this configuration already showed with *fresh* accelerators;
                the same class is not reported again for its stale scenarios.
    A deviation of a derived query family is not reported when a primitive family it is computed
    from (lookup, membership, parents, ref values) deviates in the same run: one root cause, one key
    (the masked classes are still counted as outcomes)."""
    d = diff(ref, A)
    scen = STEP_CLASS[step] + MODE_SUFFIX[mode]
    acc.count("configurations")
    acc.count("queries", len(A))
    cname = cfg_name(config)
    cls = _accel_class(config) if config else "none@" + layout
    acc.count("judged:%s:%s" % (cls, scen))
    if not d:
        acc.outcome("%s:%s:same" % (cls, scen))
        return d
    if not config:
        who = _layout_key(layout)
    elif len(config) == 1:
        who = cname
    else:
        who = "combo(%s)" % "+".join(a for a, _ in config) + "[%s]" % ",".join(sorted({v[0] for _, v in config}))
    if any(a == "bitmap" for a, _ in config):
        # what a bitmap can know depends on whether its pack is closed under reachability
        who += "@" + PACK_CLASS[layout]
    left = {}
    for q, (r, g) in d.items():
        why = [nm for nm, other in explain if other.get(q, r) == g]
        if why:
            acc.outcome("%s:%s:deviation-explained-by:%s" % (cls, scen, why[0]))
        else:
            left[q] = (r, g)
    dev_fams = {q[0] for q in d}  # (explained deviations of primitives mask derived families too)
    dev_preds = {(q[0], predicate(r, g)) for q, (r, g) in d.items()}
    seen = set()
    for q, (r, g) in sorted(left.items(), key=lambda kv: repr(kv[0])):
        fam = q[0]
        pred = predicate(r, g)
        masked = [p for p in DEPENDS.get(fam, ()) if p in dev_fams] + [p for p in SIBLING.get(fam, ()) if (p, pred) in dev_preds]
        pred = _pred_detail(fam, pred, r)
        if masked:
            acc.outcome("%s:%s:%s:%s:masked-by-primitive:%s" % (who, scen, fam, pred, masked[0]))
            continue
        w = who
        if not config and "gc" in (step or "") and (fam.startswith("refs") or fam in ("get_peeled", "head")):
            w = "prefs[by-gc]"  # the step itself packed the refs
        if step is not None and fresh_seen is not None and (fam, pred) in fresh_seen:
            acc.outcome("%s:%s:%s:%s:already-with-fresh-accelerator" % (w, scen, fam, pred))
            continue
        if step is None and fresh_seen is not None:
            fresh_seen.add((fam, pred))
        key = _key("%s:%s:%s:%s" % (w, scen, fam, pred))
        acc.outcome(key)
        acc.count("violating_queries")
        if key in seen:
            continue
        seen.add(key)
        acc.violation(key, "%s | layout=%s accel=%s step=%s mode=%s | %s%r: with accelerators %s, without (%s) %s"
                      % (h.name, layout, cname, step, mode, fam, q[1:], _short(g), ref_kind, _short(r)), replay)
    return d


def _accel_class(config):
    if not config:
        return "none"
    return "+".join(a for a, _ in config)


class WriterFailed(Exception):
    """A dulwich accelerator writer raised (args: accelerator name, exception type name)."""


class StepFailed(Exception):
    """The continuation step itself raised in a repository with accelerators / another layout
    (it succeeded in the reference repository)."""


def _apply_step_observed(h, step, path):
    try:
        apply_step(h, step, path)
    except HarnessError:
        raise
    except Exception as e:
        raise StepFailed(type(e).__name__)


def run_fresh(h: Hist, path, step):
    """Apply `step` (if any) to the repository at `path` and answer the battery with a fresh Repo."""
    if step is not None:
        _apply_step_observed(h, step, path)
    r = _open(path)
    try:
        return battery(h, r)
    finally:
        r.close()


def probe_bitmap_files(acc: Acc, h: Hist, path, variant):
    """Informational (never a violation): what a freshly opened Repo does with the .bitmap files.
    (a) does find_commit_bitmaps() find the bitmap of a branch tip at all?  (b) does each stored
    bitmap, decoded with the module's own bitmap_to_object_shas(), equal closure(commit) & pack?"""
    from dulwich.bitmap import bitmap_to_object_shas, find_commit_bitmaps
    from dulwich.objects import sha_to_hex

    label = _labels(h)
    node = {c.id: i for i, c in enumerate(h.commits)}
    r = _open(path)
    try:
        st = r.object_store
        packs = [p for p in st.packs if os.path.exists(p._bitmap_path)]
        if not packs:
            return
        tips = {h.commits[t].id for t in h.tips}
        found = _ans(lambda: len(find_commit_bitmaps(set(tips), st.packs)))
        acc.outcome("bitmap[%s]:on-disk:find_commit_bitmaps-finds-%s-of-the-tips" % (
            variant, found if _is_exc(str(found)) else ("none" if found == 0 else "some")))
        for p in packs:
            bm = _ans(lambda p=p: p.bitmap)
            if bm is None or _is_exc(bm if isinstance(bm, str) else ""):
                acc.outcome("bitmap[%s]:on-disk:not-loaded" % variant)
                continue
            inpack = {sha_to_hex(e[0]) for e in p.index.iterentries()}
            for k in list(bm.entries):
                hexid = sha_to_hex(k) if len(k) == 20 else k
                if hexid not in node:
                    acc.outcome("bitmap[%s]:on-disk:entry-for-unknown-object" % variant)
                    continue
                want = set()
                for i in E.bits(h.anc[node[hexid]]):
                    want |= {h.commits[i].id, h.trees[i].id, h.common.id}
                    if h.subs[i] is not None:
                        want.add(h.subs[i].id)
                    want |= {h.blobs[j].id for j in E.bits(h.anc[i])}
                got = _ans(lambda k=k, p=p: set(bitmap_to_object_shas(bm.get_bitmap(k), p.index)))
                ok = got == (want & inpack)
                acc.outcome("bitmap[%s]:on-disk:stored-bitmap-decodes-to-%s" % (
                    variant, "closure-within-pack" if ok else "a-different-object-set"))
    finally:
        r.close()


def probe_loaded(acc: Acc, path, av):
    """Vacuity guard material: does a freshly opened Repo actually load the file that was written?"""
    a, v = av
    r = _open(path)
    try:
        if a == "cg":
            g = r.object_store.get_commit_graph()
            ok = g is not None and len(g) > 0
        elif a == "midx":
            m = r.object_store.get_midx()
            ok = m is not None and len(m) > 0
        elif a == "prefs":
            ok = len(r.refs.get_packed_refs()) > 0
        else:
            ok = any(p.bitmap is not None for p in r.object_store.packs)
        acc.outcome("accel-%s:%s[%s]" % ("loaded-by-fresh-repo" if ok else "NOT-loaded", a, v))
    finally:
        r.close()


def run_live(h: Hist, path, config, step, acc=None):
    """A long-lived Repo object: opened first, accelerators written through it (C git variants:
    behind its back), battery answered once (warms every cache); then another Repo object performs
    `step`; the long-lived object answers again.  Returns (answers after writing, answers after
    step or None, accelerators that produced nothing)."""
    r = _open(path)
    pin = None
    try:
        empty = write_config(path, config, r)
        if acc is not None and any(a == "bitmap" for a, _ in config) and not empty:
            from dulwich.bitmap import find_commit_bitmaps

            tips = {h.commits[t].id for t in h.tips}
            n = _ans(lambda: len(find_commit_bitmaps(set(tips), r.object_store.packs)))
            acc.outcome("bitmap:live:provider=%s:tip-bitmaps-%s" % (
                type(r.object_store.get_reachability_provider()).__name__, "found" if n else "not-found"))
        a1 = battery(h, r)
        a2 = None
        if step is not None:
            pin = _Pin(path)
            _apply_step_observed(h, step, path)
            a2 = battery(h, r)
        return a1, a2, empty
    finally:
        if pin:
            pin.close()
        r.close()


# families whose queries are cheap: in live-first mode EVERY single query of them gets to be the first one
# after the foreign step; the expensive families are each started once as a whole
FIRST_PER_QUERY = frozenset(("contains", "iter", "parents", "get_depth", "graph_walker", "refs.as_dict",
                             "refs.keys", "refs.get", "refs.contains", "refs.read_ref", "get_peeled", "refs.get_peeled", "head"))


def _forked(fn):
    """Run fn() in a forked copy of this process (which inherits every in-memory cache as it is right now)
    and return its picklable result; the parent's state is untouched."""
    import pickle

    rfd, wfd = os.pipe()
    pid = os.fork()
    if pid == 0:
        status = 1
        try:
            os.close(rfd)
            try:
                data = pickle.dumps(("ok", fn()))
            except BaseException as e:  # reported to the parent, which raises a HarnessError
                data = pickle.dumps(("err", "%s: %r" % (type(e).__name__, e)))
            view = memoryview(data)
            while view:
                view = view[os.write(wfd, view):]
            status = 0
        finally:
            os._exit(status)
    os.close(wfd)
    chunks = []
    while True:
        c = os.read(rfd, 1 << 16)
        if not c:
            break
        chunks.append(c)
    os.close(rfd)
    _, st = os.waitpid(pid, 0)
    if st != 0 or not chunks:
        raise HarnessError("forked query process failed (status %r)" % (st,))
    kind, val = pickle.loads(b"".join(chunks))
    if kind != "ok":
        raise HarnessError("forked query process: " + val)
    return val


def run_live_first(h: Hist, path, config, step, acc=None):
    """Like run_live, but after the foreign step EACH query gets to be the first thing the long-lived Repo
    is asked: the warmed-up process is forked once per query (FIRST_PER_QUERY families) / once per family
    (the others) and the child answers only that.  A cache that is revalidated by some queries and not by
    others cannot hide behind the order of the battery this way.  Returns (answers, accelerators that
    produced nothing)."""
    r = _open(path)
    pin = None
    try:
        empty = write_config(path, config, r)
        battery(h, r)  # warms every cache
        pin = _Pin(path)
        _apply_step_observed(h, step, path)
        keys = list(battery(h, None, list_only=True))
        units = []
        fams_done = set()
        for k in keys:
            if k[0] in FIRST_PER_QUERY:
                units.append(lambda q, k=k: q == k)
            elif k[0] not in fams_done:
                fams_done.add(k[0])
                units.append(lambda q, f=k[0]: q[0] == f)
        out = {}
        for sel in units:
            out.update(_forked(lambda sel=sel: battery(h, r, only=sel)))
        if acc is not None:
            acc.count("first_query_forks", len(units))
        if set(out) != set(keys):
            raise HarnessError("live-first: the units do not cover the battery")
        return {k: out[k] for k in keys}, empty
    finally:
        if pin:
            pin.close()
        r.close()


_SNAP = {}


def _base_snapshot(h: Hist, layout, work):
    """Snapshot of the repository of `h` in `layout` (no accelerators), memoised per history."""
    k = (h.dag, layout)
    if _SNAP.get("h") is not h:
        _SNAP.clear()
        _SNAP["h"] = h
    if k not in _SNAP:
        p = os.path.join(work, "base-" + layout)
        if os.path.exists(p):
            shutil.rmtree(p)
        build_layout(h, layout, p)
        _SNAP[k] = SS.snapshot(p)
        shutil.rmtree(p)
    return _SNAP[k]


def _purify_refs(h: Hist, step, path):
    """Steps that contain gc write packed-refs themselves.  The reference run must be free of every
    accelerator: check the refs against the model, then store them as plain loose files."""
    refs, _head, _objs = model_state(h, step)
    r = _open(path)
    try:
        got = r.refs.as_dict()
    finally:
        r.close()
    got.pop(b"HEAD", None)
    if got != refs:
        raise HarnessError("reference run: refs %r, model %r (%s, step %s)" % (sorted(got.items()), sorted(refs.items()), h.name, step))
    pr = os.path.join(path, "packed-refs")
    if os.path.exists(pr):
        os.unlink(pr)
    for sub in ("heads", "tags"):
        d = os.path.join(path, "refs", sub)
        if os.path.isdir(d):
            shutil.rmtree(d)
        os.makedirs(d)
    for name, val in refs.items():
        with open(os.path.join(path, name.decode()), "wb") as f:
            f.write(val + b"\n")


def _reference(h: Hist, step, work, cache):
    if step not in cache:
        p = os.path.join(work, "ref")
        SS.restore(_base_snapshot(h, "loose", work), p)
        if step is not None:
            apply_step(h, step, p)
            _purify_refs(h, step, p)
        if accel_files(p) or os.path.exists(os.path.join(p, "packed-refs")):
            raise HarnessError("reference repository is not accelerator-free")
        R = run_fresh(h, p, None)
        validate_reference(h, step, R)
        cache[step] = R
    return cache[step]


def _fresh_answers(h, layout, config, step, work, snap_cache, acc=None):
    """Answers of a fresh Repo for (layout, config, step); the state after writing the accelerators
    is snapshotted once per (layout, config)."""
    k = (layout, config)
    p = os.path.join(work, "run")
    if k not in snap_cache:
        SS.restore(_base_snapshot(h, layout, work), p)
        empty = write_config(p, config)
        snap_cache[k] = (SS.snapshot(p), empty)
        if acc is not None and len(config) == 1 and config[0][0] == "bitmap":
            probe_bitmap_files(acc, h, p, config[0][1])
        if acc is not None and len(config) == 1 and not empty:
            probe_loaded(acc, p, config[0])
        if step is None:
            return run_fresh(h, p, None), empty
    snap, empty = snap_cache[k]
    SS.restore(snap, p)
    return run_fresh(h, p, step), empty


def case_config(acc: Acc, dag, layout, config, step, mode):
    """ONE configuration, stand-alone (replay entry point): reference run, the runs with no and with
    each single accelerator (to attribute deviations of combinations), the accelerated run, verdict."""
    h = history(dag)
    config = norm_cfg(config)
    work = fresh_dir("c14case")
    try:
        _eval_configs(acc, h, layout, [config], [step], mode, work, {}, standalone=True)
    finally:
        rmtree(work)


def _eval_configs(acc, h, layout, configs, steps, mode, work, refcache, standalone=False):
    """Evaluate `configs` x `steps` on one layout.  Singles / the empty configuration needed to
    explain combinations are evaluated on demand and memoised in this call."""
    memo = {}
    snap_cache = {}

    def answers(config, step):
        k = (config, step)
        if k not in memo:
            if mode == "fresh":
                memo[k] = _fresh_answers(h, layout, config, step, work, snap_cache, acc)
            elif mode == "live":
                p = os.path.join(work, "live")
                SS.restore(_base_snapshot(h, layout, work), p)
                a1, a2, empty = run_live(h, p, config, step, acc)
                memo[k] = (a1 if step is None else a2, empty)
            else:
                p = os.path.join(work, "live")
                SS.restore(_base_snapshot(h, layout, work), p)
                memo[k] = run_live_first(h, p, config, step, acc)
        return memo[k]

    for config in configs:
        fresh_seen = set()
        steps_ = list(steps)
        if mode == "live-first":
            steps_ = [st for st in steps_ if st is not None]  # (only defined after a foreign step)
        elif any(st is not None for st in steps_) and None not in steps_:
            steps_ = [None] + steps_  # (stand-alone replay of a stale scenario: same suppression as in the batch)
        steps_.sort(key=lambda st: st is not None)
        for step in steps_:
            if not step_applicable(h, step):
                continue
            R = _reference(h, step, work, refcache)
            try:
                A, empty = answers(config, step)
            except WriterFailed as e:
                key = _key("%s@%s:fresh:write:raises-%s" % (e.args[0], layout, e.args[1]))
                acc.outcome(key)
                acc.count("configurations")
                acc.violation(key, "%s | layout=%s accel=%s mode=%s | writing the accelerator raised %s"
                              % (h.name, layout, cfg_name(config), mode, e.args[1]), rp(case_config, h.dag, layout, config, None, mode))
                break
            except StepFailed as e:
                if config:
                    try:
                        answers((), step)
                    except StepFailed as e0:
                        if e0.args == e.args:  # the layout alone makes the step fail the same way
                            acc.outcome("%s:%s:step-failure-explained-by:%s" % (_accel_class(config), STEP_CLASS[step], _layout_key(layout)))
                            acc.count("configurations")
                            continue
                who = cfg_name(config) if config else _layout_key(layout)
                key = _key("%s:%s:step:raises-%s" % (who, STEP_CLASS[step] + MODE_SUFFIX[mode], e.args[0]))
                acc.outcome(key)
                acc.count("configurations")
                if step in steps:
                    acc.violation(key, "%s | layout=%s accel=%s step=%s mode=%s | the step itself raised %s (it succeeds without "
                                  "accelerators on loose objects)" % (h.name, layout, cfg_name(config), step, mode, e.args[0]),
                                  rp(case_config, h.dag, layout, config, step, mode))
                continue
            if empty and step is None:
                acc.outcome("writer-produced-nothing:%s:%s" % (cfg_name(empty), "loose" if layout == "loose" else "packed"))
            explain = []
            ref, ref_kind = R, "plain: loose objects, loose refs, fresh Repo"
            if config:
                try:
                    A0, _ = answers((), step)
                except (StepFailed, WriterFailed):
                    A0 = R  # (reported for the empty configuration itself)
                if mode != "fresh":
                    # a long-lived object without accelerators is the baseline of the live modes; its own
                    # deviations from a fresh object are C10's business (readers vs repacks), not C14's
                    if A0 != R:
                        for q in diff(R, A0):
                            acc.outcome("live-baseline-differs-from-fresh:%s:%s" % (STEP_CLASS[step], q[0]))
                    ref, ref_kind = A0, "same long-lived Repo scenario without accelerators"
                else:
                    explain.append((_layout_key(layout), A0))
                if len(config) > 1:
                    for av in config:
                        try:
                            explain.append((cfg_name((av,)), answers((av,), step)[0]))
                        except (StepFailed, WriterFailed):
                            pass
            elif mode != "fresh":
                d0 = diff(R, A)
                for q in d0:
                    acc.outcome("live-baseline-differs-from-fresh:%s:%s" % (STEP_CLASS[step], q[0]))
                acc.count("configurations")
                acc.count("queries", len(A))
                continue
            sink = acc if step in steps else Acc()  # the extra fresh run of a replay only feeds fresh_seen
            judge(sink, h, layout, config, step, mode, A, ref, explain,
                  rp(case_config, h.dag, layout, config, step, mode), ref_kind, fresh_seen)


# --------------------------------------------------------------------------- one history (batch)

QUICK_STEPS = ("commit", "pack", "repack", "pack-loose", "delref", "delref+gc", "retag", "retag+gc", "repack-excl", "deltag+gc")
QUICK_LIVE_STEPS = ("commit", "pack", "repack", "delref+gc", "retag", "retag+gc")
THOROUGH_LIVE_STEPS = ("commit", "pack", "repack", "pack-loose", "delref+gc", "retag", "retag+gc", "deltag+gc")
LIVE_FIRST_STEPS = {True: ("pack", "delref+gc", "retag+gc"), False: ("pack", "repack", "delref+gc", "retag+gc")}
LIVE_FIRST_LAYOUTS = {True: ("pack1", "pack2"), False: ("pack1", "pack2")}
MAIN_LAYOUTS = ("loose", "pack1", "pack2", "mixed")
EXTRA_LAYOUTS = ("pack2o", "pack1-v1", "pack1-v3")
DEFAULT = {"cg": "d", "midx": "d", "bitmap": "d", "prefs": "d"}


def all_subsets(variant_of):
    """Every non-empty subset of the four accelerators with the given writer variants."""
    out = []
    for k in range(1, len(ACCELS) + 1):
        for sub in E.subsets(ACCELS, k, k):
            out.append(tuple((a, variant_of[a]) for a in sub))
    return out


def plan_for(layout, tier, light=False, first=False):
    """[(mode, configs, steps)] for one layout.  quick and thorough enumerate the same structure;
    thorough adds the C-git / variant writers under every step and more members in the live mode.
    light (thorough, non-canonical n=4 numberings): all subsets fresh + default singles/full set stale."""
    q = tier == "quick"
    singles_d = [((a, DEFAULT[a]),) for a in ACCELS]
    variants = [((a, v),) for a in ACCELS for v in WRITERS[a] if v != DEFAULT[a]]
    multi_d = [c for c in all_subsets(DEFAULT) if len(c) > 1]
    full_d = tuple((a, DEFAULT[a]) for a in ACCELS)
    full_g = tuple((a, "g") for a in ACCELS)
    packed = layout in ("pack1", "pack2")
    steps = list(QUICK_STEPS if q else STEPS)
    plan = []
    if layout in MAIN_LAYOUTS:
        # fresh: every subset (dulwich writers), every writer variant alone, everything by C git
        plan.append(("fresh", [()] + singles_d + variants + multi_d + ([full_g] if packed else []), [None]))
        # stale: every single accelerator and the full set x every step (+ C-git / variant writers)
        st_cfg = [()] + singles_d + [full_d]
        if q:
            st_cfg += [(("cg", "g"),), (("prefs", "g"),)]
        elif not light:
            st_cfg += [(("cg", "g"),), (("cg", "d-all"),), (("midx", "g"),), (("bitmap", "g"),), (("prefs", "g"),)]
            st_cfg += [full_g] if packed else []
        plan.append(("fresh", st_cfg, steps))
        # live: long-lived Repo object
        if q:
            if layout != "mixed":
                plan.append(("live", [()] + singles_d, [None] + list(QUICK_LIVE_STEPS)))
        elif not light:
            lv_cfg = [()] + singles_d + [full_d, (("cg", "g"),), (("midx", "g"),), (("prefs", "g"),)]
            plan.append(("live", lv_cfg, [None] + list(THOROUGH_LIVE_STEPS)))
        # live-first: every query in turn is the FIRST one a warmed-up long-lived Repo is asked after the step
        if first and layout in LIVE_FIRST_LAYOUTS[q]:
            lf_cfg = [()] + singles_d + ([] if q else [(("prefs", "g"),)])
            plan.append(("live-first", lf_cfg, list(LIVE_FIRST_STEPS[q])))
    else:
        cfgs = [(), (("midx", "d"),), (("bitmap", "d"),)] + ([] if q else [(("cg", "d"),), full_d])
        if not q and layout != "pack1-v3":  # (C git 2.39 cannot read a version-3 pack index at all)
            cfgs.append((("midx", "g"),))
        plan.append(("fresh", cfgs, [None] + (["commit", "delref+gc", "repack"] if q else ["commit", "pack", "repack", "delref+gc", "repack-excl"])))
        plan.append(("live", [(), (("bitmap", "d"),)], [None]))
    return plan


def eval_history(acc: Acc, dag, tier, layouts, light=False, first=False):
    h = history(dag)
    work = fresh_dir("c14h")
    refcache = {}
    try:
        for layout in layouts:
            if not layout_applicable(h, layout):
                continue
            for mode, configs, steps in plan_for(layout, tier, light, first):
                _eval_configs(acc, h, layout, configs, steps, mode, work, refcache)
        acc.count("history_tasks")
        acc.count("history_layouts", len([L for L in layouts if layout_applicable(h, L)]))
    finally:
        _SNAP.clear()
        rmtree(work)


# --------------------------------------------------------------------------- histories with several octopus merges

# A commit-graph stores the parents of an octopus merge in a separate edge list; only the SECOND and later
# octopus merges of one file have a non-zero position in it.  n<=4 histories cannot have two of them, so this
# named family (5-6 commits, up to 4 parents) is evaluated for the commit-graph accelerator only, with the
# graph families of the battery.
OCTOPUS_SHAPES = (
    ((), (), (), (0, 1, 2), (0, 1, 2)),  # three roots, two merges of all three
    ((), (), (), (0, 1, 2), (3, 0, 1)),  # the second octopus has the first one as its first parent
    ((), (), (), (), (0, 1, 2, 3), (1, 2, 3)),  # a 4-parent octopus and a 3-parent one (edge list not at 0 either way round)
    ((), (), (), (0, 1, 2), (0, 1, 2), (3, 4, 0)),  # three octopus merges, the third merges the other two
)
CG_FAMILIES = ("parents", "can_ff", "merge_base", "walk", "find_shallow", "get_depth", "graph_walker", "reach_commits", "mof",
               "iter", "contains", "refs")


def eval_octopus(acc: Acc, dag, tier):
    q = tier == "quick"
    h = history(dag, families=CG_FAMILIES)
    work = fresh_dir("c14o")
    refcache = {}
    cg = [(("cg", v),) for v in WRITERS["cg"]]
    try:
        for layout in (("pack1",) if q else ("loose", "pack1", "pack2")):
            _eval_configs(acc, h, layout, [()] + cg, [None], "fresh", work, refcache)
            _eval_configs(acc, h, layout, [(), (("cg", "d"),), (("cg", "g"),)], [None, "commit"] + ([] if q else ["delref+gc", "repack"]),
                          "live", work, refcache)
            _eval_configs(acc, h, layout, [(), (("cg", "d"),)] + ([] if q else [(("cg", "g"),), (("cg", "d-all"),)]),
                          ["commit", "delref+gc"] + ([] if q else ["pack", "repack", "moveref+gc"]), "fresh", work, refcache)
        acc.count("octopus_history_tasks")
    finally:
        _SNAP.clear()
        rmtree(work)


# --------------------------------------------------------------------------- foreign accelerator files

FIXTURES = (
    # (name, dag, salt, layout)
    ("chain3", ((), (0,), (1,)), b"", "pack1"),
    ("chain3-other-content", ((), (0,), (1,)), b"alt", "pack1"),
    ("diamond4-2packs", ((), (0,), (0,), (1, 2)), b"", "pack2"),
    ("fork3", ((), (0,), (0,)), b"", "pack1"),
    ("chain2-prefix-of-chain3", ((), (0,)), b"", "pack1"),
    ("chain3-2packs", ((), (0,), (1,)), b"", "pack2"),
    # twins: the same objects in identically NAMED packs whose objects were written in the opposite order
    ("chain3-reversed-pack-order", ((), (0,), (1,)), b"", "pack1", "reversed"),
    ("diamond4-2packs-reversed-pack-order", ((), (0,), (0,), (1, 2)), b"", "pack2", "reversed"),
)
N_BASE_FIXTURES = 6
TWINS = {6: 0, 7: 2}  # fixture -> the fixture with the same pack names and another pack layout


def foreign_pairs():
    """Ordered (src, dst) pairs: all pairs of the base fixtures + every twin pair in both directions."""
    out = [(a, b) for a in range(N_BASE_FIXTURES) for b in range(N_BASE_FIXTURES) if a != b]
    for t, o in sorted(TWINS.items()):
        out += [(t, o), (o, t)]
    return out


def _pack_layouts(path):
    """{pack name: {object id: offset}} of the repository at path."""
    r = _open(path)
    try:
        return {os.path.basename(p._basename): {e[0]: e[1] for e in p.index.iterentries()} for p in r.object_store.packs}
    finally:
        r.close()


def _fixture(idx, work, writer):
    """Build fixture repo idx with all object-store accelerators written by `writer` ('d' | 'g');
    returns (history, path)."""
    name, dag, salt, layout = FIXTURES[idx][:4]
    h = history(dag, salt)
    p = os.path.join(work, "fx%d%s" % (idx, writer))
    if not os.path.exists(p):
        build_layout(h, layout, p, reverse=FIXTURES[idx][4:] == ("reversed",))
        if writer == "d":
            write_config(p, (("cg", "d"), ("midx", "d"), ("bitmap", "d")))
        else:
            write_config(p, (("cg", "g"), ("midx", "g")))
    return h, p


def _packs(path):
    pd = os.path.join(path, "objects", "pack")
    return sorted(f[:-5] for f in os.listdir(pd) if f.endswith(".pack"))


def case_foreign(acc: Acc, src, dst, kind, writer):
    """The `kind` accelerator file of fixture `src` is copied into a clean copy of fixture `dst`."""
    work = fresh_dir("c14f")
    try:
        hs, ps = _fixture(src, work, writer)
        if writer == "g" and kind == "bitmap":
            write_accel(ps, "bitmap", "g")
        name_d, dag_d, salt_d, layout_d = FIXTURES[dst][:4]
        hd = history(dag_d, salt_d)
        pd = os.path.join(work, "dst")
        build_layout(hd, layout_d, pd, reverse=FIXTURES[dst][4:] == ("reversed",))
        if TWINS.get(src) == dst or TWINS.get(dst) == src:
            # vacuity: the twins must really have identically named packs with different offsets
            ls, ld = _pack_layouts(ps), _pack_layouts(pd)
            if kind != "bitmap" or writer == "d":  # (git repack -adb of the source renames its packs)
                if set(ls) != set(ld):
                    raise HarnessError("twin fixtures: pack names differ: %r vs %r" % (sorted(ls), sorted(ld)))
                if all(ls[n] == ld[n] for n in ls):
                    raise HarnessError("twin fixtures: identical pack layouts")
                acc.outcome("foreign:twin-packs:same-names-different-offsets")
        extra = tuple(sorted(set(hs.ids) - set(hd.ids)))
        r = _open(pd)
        try:
            R = battery(hd, r, extra_ids=extra)
        finally:
            r.close()
        copied = 0
        if kind == "cg":
            os.makedirs(os.path.join(pd, "objects", "info"), exist_ok=True)
            shutil.copy(os.path.join(ps, "objects", "info", "commit-graph"), os.path.join(pd, "objects", "info", "commit-graph"))
            copied = 1
        elif kind == "midx":
            shutil.copy(os.path.join(ps, "objects", "pack", "multi-pack-index"), os.path.join(pd, "objects", "pack", "multi-pack-index"))
            copied = 1
        elif kind == "bitmap":
            sp = [x for x in _packs(ps) if os.path.exists(os.path.join(ps, "objects", "pack", x + ".bitmap"))]
            for k, dp in enumerate(_packs(pd)):
                shutil.copy(os.path.join(ps, "objects", "pack", sp[k % len(sp)] + ".bitmap"),
                            os.path.join(pd, "objects", "pack", dp + ".bitmap"))
                copied += 1
        if not copied:
            raise HarnessError("nothing copied")
        r = _open(pd)
        try:
            A = battery(hd, r, extra_ids=extra)
        finally:
            r.close()
        _judge_untrusted(acc, "%s[%s]" % (kind, writer), "foreign", A, R,
                         "%s file of fixture %r copied into fixture %r" % (kind, FIXTURES[src][0], name_d),
                         rp(case_foreign, src, dst, kind, writer))
    finally:
        rmtree(work)


def _judge_untrusted(acc, who, scen, A, R, what, replay, judged=True):
    """Foreign / damaged file: same answers, or a rejection (an exception that is not itself an
    answer of the query); never a different answer.  judged=False (single-byte damage): a different
    answer is recorded as an outcome class only — the statement of C14 is about stale files and files
    built for other packs, not about bit rot (see NOTES, D9)."""
    d = diff(R, A)
    acc.count("configurations")
    acc.count("queries", len(A))
    if not d:
        acc.outcome("%s:%s:same-answers" % (who, scen.split("@")[0]))
        return

    def _rejection(g, q=None):
        """Is the exception g a rejection of the FILE?  For the per-object families the file has only been
        rejected if the same question about the id that never existed ('Z') fails the same way — an error
        that hits exactly the objects the file talks about means the file was believed and the object
        could then not be read (e.g. a foreign multi-pack-index whose offsets are used)."""
        if not _rejection_exc(g):
            return False
        if judged and q is not None and q[0] in PER_OBJECT_FAMILIES and len(q) == 2 and q[1] != "Z":
            return A.get((q[0], "Z")) == g
        return True

    dev_fams = {q[0] for q, (r, g) in d.items() if not _rejection(g, q)}
    dev_preds = {(q[0], predicate(r, g)) for q, (r, g) in d.items()}
    seen = set()
    rejected = False
    for q, (r, g) in sorted(d.items(), key=lambda kv: repr(kv[0])):
        fam = q[0]
        if _rejection(g, q):
            rejected = True
            if g.startswith("!!"):
                acc.outcome("%s:%s:rejected-with-%s" % (who, scen.split("@")[0], g[2:]))
            continue
        pred = predicate(r, g)
        masked = [p for p in DEPENDS.get(fam, ()) if p in dev_fams and p != fam] + [
            p for p in SIBLING.get(fam, ()) if (p, pred) in dev_preds]
        pred = _pred_detail(fam, pred, r)
        if masked:
            acc.outcome("%s:%s:%s:%s:masked-by-primitive:%s" % (who, scen, fam, pred, masked[0]))
            continue
        key = _key("%s:%s:%s:%s" % (who, scen, fam, pred))
        if not judged:
            acc.outcome(key + ":believed(not-judged)")
            acc.count("damage_mutants_believed_queries")
            continue
        acc.outcome(key)
        acc.count("violating_queries")
        if key in seen:
            continue
        seen.add(key)
        acc.violation(key, "%s | %s%r: answered %s, without the file %s" % (what, fam, q[1:], _short(g), _short(r)), replay)
    if rejected:
        acc.outcome("%s:%s:rejected-with-ordinary-error" % (who, scen.split("@")[0]))


PER_OBJECT_FAMILIES = ("getitem", "get_raw", "contains", "parents")


def _rejection_exc(g):
    """An exception that is not an answer of the query.  MemoryError / RecursionError ('!!') are rejections
    too as far as C14 goes (containment of hostile input is property C04); they get their own outcome class."""
    if g == "!!does-not-terminate":
        return False  # a query that spins for ever has not rejected anything
    return _is_exc(g) and g.lstrip("!") not in REJECT_IS_ANSWER


# --------------------------------------------------------------------------- E5 single-fault damage

DAMAGE_FAMILIES = {
    "cg": {"parents", "can_ff", "merge_base", "walk", "find_shallow", "get_depth", "graph_walker", "mof", "reach_commits"},
    "midx": {"getitem", "contains", "get_raw", "iter"},
    "bitmap": {"reach_commits", "reach_objects", "mof"},
}
DAMAGE_CPU_S = 8  # seconds of CPU time (sandbox limit); the restricted battery needs ~0.05 s
DAMAGE_WALL_S = 900  # wall-clock watchdog of the sandbox (only a sleeping process can reach it)


def chunk_regions(data, header_len):
    """[(start, end, label)] of a chunk-format file (commit-graph: 8-byte header, multi-pack-index:
    12-byte header; then (4-byte id, 8-byte offset) entries up to the zero id)."""
    import struct

    nchunks = data[6]
    reg = [(0, header_len, "header"), (header_len, header_len + 12 * (nchunks + 1), "toc")]
    toc = []
    for i in range(nchunks + 1):
        o = header_len + 12 * i
        toc.append((data[o:o + 4], struct.unpack(">Q", data[o + 4:o + 12])[0]))
    for (cid, off), (_, nxt) in zip(toc, toc[1:]):
        reg.append((off, nxt, cid.decode("ascii", "replace")))
    if toc[-1][1] < len(data):
        reg.append((toc[-1][1], len(data), "trailer"))
    return reg


def damage_positions(kind, data):
    """Positions explored (declared window) and the region table.  The 1024-byte fan-out tables are
    reduced to the entries next to a bucket boundary that is actually used (plus first and last)."""
    if kind in ("cg", "midx"):
        reg = chunk_regions(data, 8 if kind == "cg" else 12)
        pos = []
        for a, b, name in reg:
            if name == "OIDF":
                keep = set()
                prev = 0
                for i in range(256):
                    v = int.from_bytes(data[a + 4 * i:a + 4 * i + 4], "big")
                    if v != prev or i in (0, 255):
                        for j in (i - 1, i, i + 1):
                            if 0 <= j < 256:
                                keep.add(j)
                    prev = v
                for i in sorted(keep):
                    pos.extend(range(a + 4 * i, a + 4 * i + 4))
            else:
                pos.extend(range(a, b))
        return pos, reg
    reg = [(0, 12, "header"), (12, 32, "pack-checksum"), (32, len(data), "body")]
    return list(range(len(data))), reg


def damage_descriptors(kind, data, bitflips):
    pos, reg = damage_positions(kind, data)
    keep = set(pos)
    kinds = (MF.TRUNCATE, MF.BYTESET) + ((MF.BITFLIP,) if bitflips else ())
    return [d for d in MF.descriptors(data, kinds) if d[1] in keep], reg


def _damage_target(work, fixture, kind, writer):
    h, p = _fixture(fixture, work, writer)
    if writer == "g" and kind == "bitmap":
        write_accel(p, "bitmap", "g")
    if kind == "cg":
        rel = "objects/info/commit-graph"
    elif kind == "midx":
        rel = "objects/pack/multi-pack-index"
    else:
        rel = "objects/pack/" + [x for x in _packs(p) if os.path.exists(os.path.join(p, "objects", "pack", x + ".bitmap"))][0] + ".bitmap"
    return h, p, rel


_DMG = {}


def _damage_prepare(work, fixture, kind, writer, with_reference):
    """Fixture repository with the accelerators, the target file's bytes and region table; with_reference:
    also the answers without the file (R) and with the intact file (A0)."""
    h, p, rel = _damage_target(work, fixture, kind, writer)
    data = open(os.path.join(p, rel), "rb").read()
    g = dict(h=h, p=p, rel=rel, data=data, reg=damage_positions(kind, data)[1])
    if with_reference:
        snap = SS.snapshot(p)
        q = os.path.join(work, "plain")
        SS.restore(snap, q)
        os.unlink(os.path.join(q, rel))
        r = _open(q)
        try:
            g["R"] = battery(h, r, DAMAGE_FAMILIES[kind])
        finally:
            r.close()
        r = _open(p)
        try:
            g["A0"] = battery(h, r, DAMAGE_FAMILIES[kind])  # the intact file (its own deviations are not the damage's)
        finally:
            r.close()
    return g


def sb_damage(inp):
    """Runs INSIDE the E6 sandbox (engines/sandbox.py: RLIMIT_AS, CPU limit, wall-clock watchdog; a worker that
    dies or hangs is an observation attributed to exactly this input).  Returns the answers of the restricted
    battery with the mutant file in place."""
    base, fixture, kind, writer, desc = inp
    desc = tuple(desc)
    k = (fixture, kind, writer, os.getpid())
    if _DMG.get("k") != k:
        from engines import common

        work = os.path.join(base, "sb%d" % os.getpid())
        os.makedirs(work, exist_ok=True)
        common._scratch_root, common._scratch_owner = work, os.getpid()  # (HOME of the git calls; removed by the caller)
        _DMG.clear()
        _DMG.update(_damage_prepare(work, fixture, kind, writer, False), k=k)
    g = _DMG
    path = os.path.join(g["p"], g["rel"])
    with open(path, "wb") as f:
        f.write(MF.apply(g["data"], desc))
    try:
        r = _open(g["p"])
        try:
            return battery(g["h"], r, DAMAGE_FAMILIES[kind])
        finally:
            r.close()
    finally:
        with open(path, "wb") as f:
            f.write(g["data"])


_DREF = {}


def damage_batch(acc: Acc, fixture, kind, writer, descs):
    """Single-fault mutants of one accelerator file of a fixture repository, each evaluated in the sandbox."""
    from engines import sandbox

    descs = [tuple(d) for d in descs]
    k = (fixture, kind, writer, os.getpid())
    if _DREF.get("k") != k:
        work = fresh_dir("c14d")
        _DREF.clear()
        _DREF.update(_damage_prepare(work, fixture, kind, writer, True), k=k, base=fresh_dir("c14sb"))
    g = _DREF
    pool = sandbox.get_pool(None, cpu_s=DAMAGE_CPU_S, wall_s=DAMAGE_WALL_S)
    obs = pool.map_observe("props.C14:sb_damage", [(g["base"], fixture, kind, writer, list(d)) for d in descs])
    who = "%s[%s]" % (kind, writer)
    for desc, o in zip(descs, obs):
        region = MF.label(desc, g["reg"])
        acc.count("damage_mutants")
        replay = rp(case_damage, fixture, kind, writer, desc)
        what = "fixture %r, %s with %s at byte %d (%s)" % (FIXTURES[fixture][0], g["rel"], desc[0], desc[1], region)
        if o.kind == "ret":
            A = o.value
            ref = dict(g["R"])
            for q_, v in g["A0"].items():
                if v != ref[q_] and A.get(q_) == v:
                    ref[q_] = v
            _judge_untrusted(acc, who, "damaged@%s" % region, A, ref, what, replay, judged=False)
            if os.environ.get("VERIF_C14_TRACE"):  # debugging aid: per-mutant verdict, one line each
                dd = diff(ref, A)
                with open(os.environ["VERIF_C14_TRACE"], "a") as tf:
                    tf.write("%s %r %s\n" % (who, desc, "same" if not dd else ",".join(sorted({str(v[1])[:40] for v in dd.values()}))))
            continue
        if o.kind == "exc":
            raise HarnessError("sandboxed damage evaluation failed: %r (%s)" % (o.value, what))
        if o.kind == "timeout":
            pred = "no-answer-within-%ds-cpu" % DAMAGE_CPU_S if o.value == "cpu" else "no-answer-within-%ds-wall" % DAMAGE_WALL_S
        elif o.kind == "sig":
            pred = "process-killed-by-%s" % o.value
        elif o.kind == "exit":
            pred = "process-exited"
        else:
            raise HarnessError("unexpected sandbox observation %r (%s)" % (o, what))
        acc.outcome("%s:damaged:%s" % (who, pred))
        acc.outcome(_key("%s:damaged@%s:any:%s" % (who, region, pred)) + ":(not-judged)")
        acc.count("configurations")
        acc.count("damage_mutants_without_answer")


def case_damage(acc: Acc, fixture, kind, writer, desc):
    """One single-fault mutant (replay entry point)."""
    damage_batch(acc, fixture, kind, writer, [desc])


# --------------------------------------------------------------------------- task plumbing


def work(task):
    kind = task[0]
    acc = Acc()
    devnull = os.open(os.devnull, os.O_WRONLY)
    old = os.dup(2)
    os.dup2(devnull, 2)  # dulwich logs "Ignoring bitmap ..." warnings and ResourceWarnings to stderr
    try:
        if kind == "hist":
            _, dag, tier, layouts, light, first = task
            eval_history(acc, dag, tier, layouts, light, first)
        elif kind == "octopus":
            eval_octopus(acc, task[1], task[2])
        elif kind == "foreign":
            for args in task[1]:
                case_foreign(acc, *args)
        elif kind == "damage":
            _, fixture, akind, writer, descs = task
            damage_batch(acc, fixture, akind, writer, descs)
        else:
            raise AssertionError(kind)
    finally:
        os.dup2(old, 2)
        os.close(old)
        os.close(devnull)
    return acc


def _robust_entry(task):
    try:
        return ("ok", work(task))
    except BaseException as e:  # a bug of the check inside a worker
        import traceback

        return ("err", "%r\n%s" % (e, traceback.format_exc()))


def _pool_init():
    import signal

    signal.signal(signal.SIGTERM, signal.SIG_DFL)


def pmap_robust(tasks, acc, jobs):
    """Like common.pmap_acc(work, ...), but survives the death of pool workers (OOM kill, a replaced
    extension .so, a stray signal): multiprocessing.Pool silently loses the task of a dead worker and
    waits for ever; here the pool is rebuilt and the unfinished tasks (deterministic, idempotent) are run
    again.  A task whose worker dies three times is a HarnessError."""
    import concurrent.futures as cf
    import multiprocessing as mp

    tasks = list(tasks)
    if not tasks:
        return acc
    pending = dict(enumerate(tasks))
    deaths = {}
    while pending:
        ex = cf.ProcessPoolExecutor(max_workers=max(1, min(jobs, len(pending))), mp_context=mp.get_context("fork"),
                                    initializer=_pool_init)
        futs = {ex.submit(_robust_entry, t): i for i, t in pending.items()}
        broken = False
        try:
            for f in cf.as_completed(futs):
                i = futs[f]
                try:
                    st, r = f.result()
                except cf.process.BrokenProcessPool:
                    broken = True
                    continue
                if st == "err":
                    raise HarnessError("worker failed: " + r)
                acc.merge(r)
                del pending[i]
        finally:
            ex.shutdown(wait=True, cancel_futures=True)
        if broken:
            acc.count("pool_rebuilt_after_worker_death")
            for i in pending:
                deaths[i] = deaths.get(i, 0) + 1
            worst = [i for i, n in deaths.items() if n >= 3 and i in pending]
            # every pending task is charged although only one killed the pool: allow one round per pending task
            if worst and len(pending) <= 3:
                raise HarnessError("pool workers keep dying on task(s) %r" % [pending[i][:2] for i in worst])
            if max(deaths.values()) > 8:
                raise HarnessError("pool workers keep dying (%d tasks left)" % len(pending))
    return acc


QUICK_N4 = (
    ((), (0,), (1,), (2,)),  # chain
    ((), (0,), (0,), (1, 2)),  # diamond
    ((), (), (), (0, 1, 2)),  # octopus of three roots
    ((), (), (0, 1), (2,)),  # merge of two roots, then a commit
)


def run(ctx):
    import warnings

    warnings.simplefilter("ignore")
    q = ctx.quick
    tier = ctx.tier
    J = ctx.jobs
    bounds = {}
    # ---- histories
    if q:
        small = [d for n in (1, 2) for d in E.dags(n, 3)] + list(E.canonical_dags(3, 3))
        n4 = [(d, False) for d in QUICK_N4]
        bounds["histories"] = ("all 3 DAGs with n<=2 commits, one DAG per isomorphism class with n=3 (%d), %d named n=4 shapes "
                               "(chain, diamond, octopus of three roots, merge of two roots + commit); <=3 parents"
                               % (len(small) - 3, len(n4)))
    else:
        small = [d for n in (1, 2, 3) for d in E.dags(n, 3)]
        canon = set(E.canonical_dags(4, 3))
        n4 = [(d, d not in canon) for d in E.dags(4, 3)]
        if len(n4) != E.dag_count(4, 3):
            raise HarnessError("enumerator count mismatch")
        bounds["histories"] = ("all %d labelled DAGs with n<=3 and all %d labelled DAGs with n=4 commits (<=3 parents); the %d n=4 "
                               "numberings that are not the canonical representative of their isomorphism class get the light plan "
                               "(all subsets fresh; default singles + full set under every step; no live mode)"
                               % (len(small), len(n4), len([1 for _, l in n4 if l])))
    tasks = []
    nfirst = 0
    for d, light in [(d, False) for d in small] + n4:
        # live-first (every query in turn first after the step): quick n<=3; thorough: all but the light plan
        first = len(d) <= 3 if q else not light
        nfirst += first
        if len(d) >= 3:
            # one task per layout so that the big histories spread over the workers
            for L in MAIN_LAYOUTS:
                tasks.append(("hist", d, tier, (L,), light, first))
            tasks.append(("hist", d, tier, EXTRA_LAYOUTS, light, False))
        else:
            tasks.append(("hist", d, tier, MAIN_LAYOUTS + EXTRA_LAYOUTS, light, first))
    for d in OCTOPUS_SHAPES:
        tasks.append(("octopus", d, tier))
    bounds["live-first"] = ("%d histories x layouts %r x {none, each single%s} x steps %r: after the step every query of the cheap "
                            "families and every expensive family in turn is the first thing the warmed-up long-lived Repo is asked "
                            "(one forked copy of the process each)"
                            % (nfirst, LIVE_FIRST_LAYOUTS[q], "" if q else ", prefs[g]", LIVE_FIRST_STEPS[q]))
    bounds["octopus family"] = ("%d named histories with 2-3 octopus merges (5-6 commits, <=4 parents) x layouts %s x commit-graph "
                                "writers %r fresh + live + stale (graph families of the battery)"
                                % (len(OCTOPUS_SHAPES), "pack1" if q else "loose, pack1, pack2", WRITERS["cg"]))
    bounds["layouts"] = list(MAIN_LAYOUTS + EXTRA_LAYOUTS)
    bounds["accelerator subsets"] = (
        "fresh: all 15 non-empty subsets of {cg, midx, bitmap, packed-refs} by dulwich's writers + every writer variant alone %r "
        "+ all four by C git (packed layouts); stale: none + singles + full dulwich set + %s x %d steps; live: none + singles%s x "
        "(no step + %d steps); extra layouts: none/midx/bitmap%s x (no step + %d steps)"
        % (WRITERS, "cg[g], prefs[g]" if q else "cg[g], cg[d-all], midx[g], bitmap[g], prefs[g], full C-git set",
           len(QUICK_STEPS if q else STEPS), "" if q else " + full set + cg[g], midx[g], prefs[g]",
           len(QUICK_LIVE_STEPS if q else THOROUGH_LIVE_STEPS), "" if q else "/cg/full set/midx[g]", 3 if q else 5))
    bounds["steps"] = list(QUICK_STEPS if q else STEPS)
    bounds["live steps"] = list(QUICK_LIVE_STEPS if q else THOROUGH_LIVE_STEPS)
    # ---- foreign
    fp = foreign_pairs()
    pairs = [(s, d, k, w) for w in (("d",) if q else ("d", "g")) for (s, d) in fp for k in ("cg", "midx", "bitmap")]
    ftasks = [("foreign", part) for part in split(ctx.order(pairs), max(1, min(len(pairs), J * 2)))]
    bounds["foreign"] = ("%d ordered pairs (all pairs of %d fixtures + %d twin pairs: same objects in identically named packs "
                         "written in the opposite order) x {cg, midx, bitmap} x writers %s"
                         % (len(fp), N_BASE_FIXTURES, 2 * len(TWINS), "dulwich" if q else "dulwich, C git"))
    # ---- damage
    dtasks = []
    dcount = {}
    targets = [(3, "cg", "d"), (3, "midx", "d"), (3, "bitmap", "d")]
    if not q:
        targets += [(2, "cg", "g"), (2, "midx", "g"), (2, "bitmap", "g")]
    dwork = fresh_dir("c14plan")
    for fx, kind, writer in targets:
        h, p, rel = _damage_target(dwork, fx, kind, writer)
        data = open(os.path.join(p, rel), "rb").read()
        descs, _reg = damage_descriptors(kind, data, bitflips=not q)
        dcount["%s[%s]@%s (%d bytes)" % (kind, writer, FIXTURES[fx][0], len(data))] = len(descs)
        for part in MF.chunks(ctx.order(descs), max(1, min(len(descs), J if q else 2 * J))):
            dtasks.append(("damage", fx, kind, writer, part))
    rmtree(dwork)
    bounds["damage"] = {"mutants": dcount, "kinds": "every truncation + every byte set to 00/FF/+1/-1" + ("" if q else " + every single-bit flip"),
                        "window": "whole file except fan-out entries that are not adjacent to a used bucket boundary"}

    tasks = sorted(tasks, key=lambda t: -len(t[1]) - (2 if t[0] == "octopus" else 0))  # big histories first (load balance)
    alltasks = ctx.order(tasks) if ctx.seed else tasks
    pmap_robust(alltasks, ctx.acc, ctx.jobs)
    ctx.acc.note("t_after_histories", round(ctx.elapsed(), 1))
    pmap_robust(ftasks, ctx.acc, ctx.jobs)
    ctx.acc.note("t_after_foreign", round(ctx.elapsed(), 1))
    pmap_robust(dtasks, ctx.acc, ctx.jobs)
    ctx.acc.note("t_after_damage", round(ctx.elapsed(), 1))
    t = os.times()
    cpu = t.user + t.system + t.children_user + t.children_system
    ctx.acc.note("cpu_seconds_total", round(cpu, 1))
    ctx.acc.note("ideal_wall_on_16_idle_cores_s", round(cpu / 16.0, 1))

    classes = ctx.acc.classes
    n_ = ctx.acc.n
    ctx.level = "exploration"
    ctx.coverage.update(
        evaluations=n_.get("queries", 0),
        states=n_.get("configurations", 0),
        distinct_nontrivial=len([c for c in classes if not c.endswith(":same") and not c.endswith(":same-answers")]),
        outcome_classes=dict(sorted(classes.items())),
        rule=(
            "E4/E3/E5 bounded-exhaustive: every history x layout x accelerator configuration x continuation step x mode "
            "of the declared plan is built as a real repository (snapshot/restore of directories), the accelerators are "
            "written by dulwich's public writers or by C git, and a fixed battery of queries is answered by the real "
            "dulwich code; each answer is compared with the answer on the same history stored without any acceleration "
            "data. evaluations = individual query answers compared; states = configurations (repository states x mode) "
            "interrogated; distinct_nontrivial = outcome classes other than 'same answers'."
        ),
        exhaustive=True,
        bounds=bounds,
    )
    ctx.assumptions += [
        "the reference run (loose objects, loose refs, no acceleration file, freshly opened Repo) is validated against a trivial "
        "model (dict of refs, explicit DAG, known object set) on every history and step; a disagreement is a HarnessError",
        "commit timestamps increase with the topological numbering (clock effects are property C13's business)",
        "refs.get_peeled() may answer None ('not cached'); only a non-None answer is compared (with the repo-level get_peeled)",
        "foreign / damaged files: an exception other than KeyError counts as 'rejected'; KeyError is the 'not there' answer of a lookup",
        "live mode: the baseline is the same long-lived-Repo scenario without accelerators (what a long-lived reader sees after "
        "another process repacks is property C10's business); the inode of a replaced packed-refs file is pinned (DESIGN 1.3 rule 1)",
        "deviations of a derived query family are attributed to the primitive family (lookup, membership, parents, ref values) "
        "that deviates in the same run; deviations already present with a fresh accelerator are not repeated for its stale scenarios",
    ]
    # ---- vacuity guard: the scenarios were exercised and the accelerators were really in play
    # (independent of whether the answers agreed — a defect must never turn into a HarnessError here)
    need_counts = ["judged:cg:fresh", "judged:midx:fresh", "judged:bitmap:fresh", "judged:prefs:fresh",
                   "judged:cg+midx+bitmap+prefs:fresh", "judged:prefs:stale-refs", "judged:cg:stale-shrink",
                   "judged:midx:stale-relayout", "judged:bitmap:stale-grow", "judged:none@loose:stale-shrink",
                   "judged:none@pack1-v1:fresh", "judged:none@pack1-v3:fresh", "judged:none@pack2o:fresh",
                   "judged:cg:fresh+live", "judged:midx:stale-shrink+live", "judged:prefs:stale-refs+live",
                   "judged:prefs:stale-refs-repacked+live-first", "judged:midx:stale-shrink+live-first",
                   "judged:cg:stale-grow+live-first", "first_query_forks", "octopus_history_tasks"]
    absent = [c for c in need_counts if not n_.get(c)]
    if "foreign:twin-packs:same-names-different-offsets" not in classes:
        absent.append("foreign:twin-packs:same-names-different-offsets")
    need = ["accel-loaded-by-fresh-repo:cg[d]", "accel-loaded-by-fresh-repo:cg[g]", "accel-loaded-by-fresh-repo:midx[d]",
            "accel-loaded-by-fresh-repo:midx[g]", "accel-loaded-by-fresh-repo:prefs[d]", "accel-loaded-by-fresh-repo:prefs[g]",
            "accel-loaded-by-fresh-repo:bitmap[d]", "accel-loaded-by-fresh-repo:bitmap[g]",
            "bitmap:live:provider=BitmapReachability:tip-bitmaps-found"]  # the bitmap path is really taken in live mode
    absent += [c for c in need if c not in classes]
    if absent:
        raise HarnessError("vacuity guard: never observed: %r" % absent)
    if not any(c.startswith("writer-produced-nothing") for c in classes):
        raise HarnessError("vacuity guard: expected the midx writer to produce nothing for loose layouts")
    if n_.get("damage_mutants", 0) == 0 or n_.get("history_tasks", 0) == 0:
        raise HarnessError("vacuity guard: a phase did not run")


def replay(ctx, obj):
    return replay_generic(sys.modules[__name__], ctx, obj)
