"""C05 — fetch, clone and push transfer a complete, byte-identical object closure and nothing
outside it.

Bounded-exhaustive enumeration (engine E4, engines/enumerate.py):

  history   = labelled commit DAG (topological numbering, <=2 parents) x assignment of root trees
              from a 5-tree alphabet engineered for sharing (same blob under two names, identical
              subtree in several root trees, a gitlink, a subtree that disappears and comes back,
              a subtree nested at a second path; blobs are ~1.5 kB near-copies of each other so
              that packers really produce deltas / thin packs) x tag decoration of the last tip
              (none / annotated tag of commit / of a tree / of a blob reachable only through the
              tag / tag-of-tag without and with a ref on the inner tag);
              sender refs: a branch at every childless commit, one branch at an inner commit, the
              tag refs, HEAD -> last tip; the sender additionally holds objects reachable from NO
              ref (orphan commit + tree + blob, dangling tag, dangling blob)
  peer      = every downset (ancestor-closed subset) of the DAG: the receiver holds exactly the
              closure of those commits, refs on its maximal commits under refs/heads/* (family
              "h": offered as haves) or only under refs/remotes/* (family "r": nothing is offered);
              variants: + the decoration tag; + a commit of its own the sender has never seen;
              + made shallow by an earlier depth-limited fetch of one ref (two-step family)
  wants     = every non-empty subset (<=3, per block) of the sender's refs; hostile wants for ids no
              ref reaches (dulwich servers)
  direction = fetch, clone (empty peer, the client decides what it wants), push (roles swapped)
  config    = in-process (Repo.fetch between MemoryRepos; LocalGitClient fetch / clone /
              send_pack between disk repositories, sender loose or repacked with deltas by C git);
              protocol transports (dulwich TCP server + TCPGitClient, WSGI smart HTTP +
              Urllib3HttpGitClient, C git upload-pack/receive-pack through SubprocessGitClient incl.
              protocol v2, C git fetch/clone/push over git:// and http:// against the dulwich
              servers) x capability rows x depth {None,1,2} for the n<=3 histories and 12 named
              4-commit shapes.  The one timing-dependent decision of the code under test (the fetch
              client's can_read() poll while sending haves) is enumerated as net=eager / net=lazy
              (see _net_model), everything else is synchronous.
  The plan is data: families() / proto_families() list (histories, blocks); block_cases() expands
  a block on a history into the complete list of cases; run() checks evaluated == declared.

Oracle (engines/refmodels/closure.py): the object graph is known by construction; closure = plain
BFS, gitlinks not followed.
  (1) completeness  closure(transferred refs) <= receiver store; closure of ALL receiver refs
                    (cut at the receiver's recorded shallow commits) <= receiver store
  (2) identity      type and bytes of every closure object equal on both sides
  (3) containment   ids in the transmitted pack (captured on the wire / at the pack callback and
                    indexed by the independent parser engines/refmodels/packfile.py) and ids that
                    physically appeared in the receiver store
                    <= closure(wants) U {tags whose peeled target is in closure(wants), when
                    include-tag was requested}; and <= closure(advertised refs)
  (4) shallow       every commit at parent-distance < depth from a want arrives with its trees
  (5) thorough      git fsck --connectivity-only on disk receivers
Re-sending objects the peer already has is allowed.  A transfer that *fails* (exception / "ng")
is an outcome class, not a violation: the statement speaks about successful transfers.
"""

from __future__ import annotations

import itertools
import os
import sys

from engines import enumerate as E
from engines.common import Acc, HarnessError, fresh_dir, git, pmap_acc, replay_generic, rmtree, rp
from engines.refmodels import closure as ref

ZERO = b"0" * 40
T0 = 1_000_000_000
IDENT = b"V <v@example.com>"
GITLINK = b"5a" * 20  # commit of another repository; exists nowhere

DECOS = ("none", "tc", "tt", "tb", "t2", "t2r")
TREE_RULES = ((0, 1, 2, 3, 4), (4, 3, 2, 1, 0), (1, 1, 3, 0, 3))
TYPE = {1: "commit", 2: "tree", 3: "blob", 4: "tag"}


# --------------------------------------------------------------------------- object alphabet


def _lines(change=None, extra=None):
    ls = [b"%02d the quick brown fox jumps over the lazy dog, shared line of the file\n" % i for i in range(20)]
    if change is not None:
        ls[change] = b"%02d THIS LINE DIFFERS\n" % change
    if extra:
        ls.append(extra)
    return b"".join(ls)


_ALPHA = {}


def alphabet():
    """-> dict(blobs, trees: list of 5 root tree ids, objs {id: ShaFile}, edges {id: (ids..)})."""
    if _ALPHA:
        return _ALPHA
    from dulwich.objects import Blob, Tree

    objs, edges = {}, {}

    def blob(data):
        b = Blob.from_string(data)
        objs[b.id] = b
        edges[b.id] = ()
        return b.id

    def tree(entries):
        t = Tree()
        kids = []
        for name, mode, oid in entries:
            t.add(name, mode, oid)
            if mode != 0o160000:
                kids.append(oid)
        objs[t.id] = t
        edges[t.id] = tuple(kids)
        return t.id

    F, X, S, D, L = 0o100644, 0o100755, 0o120000, 0o040000, 0o160000
    bA = blob(_lines())
    bB = blob(_lines(5))
    bC = blob(_lines(15, b"one more line at the end\n"))
    bD = blob(b"tiny\n")
    bL = blob(b"d/x")  # a symlink target: only ever referenced with mode 120000
    bR = blob(_lines(7, b"#!/bin/sh\n"))  # only ever referenced with mode 100755
    S1 = tree([(b"x", F, bA), (b"y", F, bB)])
    S2 = tree([(b"k", F, bD), (b"x", F, bC)])
    S3 = tree([(b"x", F, bA), (b"y", F, bB), (b"z", D, S2)])
    roots = [
        tree([(b"d", D, S1), (b"f", F, bA), (b"g", F, bA)]),  # same blob under f, g and d/x
        tree([(b"d", D, S1), (b"f", F, bB), (b"h", F, bC), (b"s", S, bL)]),  # identical subtree d, new siblings, symlink
        tree([(b"f", F, bB), (b"m", L, GITLINK)]),  # d gone; gitlink
        tree([(b"d", D, S1), (b"e", D, S2), (b"f", F, bC), (b"run", X, bR)]),  # d back, new subtree e, executable
        tree([(b"d", D, S3), (b"f", F, bA)]),  # S2 nested at a second path
    ]
    _ALPHA.update(roots=roots, objs=objs, edges=edges, bE=None)
    return _ALPHA


# --------------------------------------------------------------------------- histories


class Hist:
    """One history, built from real dulwich objects; the graph is recorded by construction."""

    __slots__ = ("dag", "trees", "deco", "objs", "raw", "edges", "parents", "commits", "refs", "head", "tagrefs",
                 "tag_target", "orphans", "sinks", "anc", "dirs", "mem", "sender_ids", "alien")


_HMEMO = [None, None]


def history(dag, trees, deco) -> Hist:
    dag = tuple(tuple(p) for p in dag)
    trees = tuple(trees)
    key = (dag, trees, deco)
    if _HMEMO[0] == key:
        return _HMEMO[1]
    if _HMEMO[1] is not None:
        _drop(_HMEMO[1])
    from dulwich.objects import Blob, Commit, Tag, Tree

    for i, ps in enumerate(dag):
        if any(p >= i or p < 0 for p in ps) or len(set(ps)) != len(ps):
            raise HarnessError("not a DAG in topological numbering: %r" % (dag,))
    if len(trees) != len(dag) or deco not in DECOS:
        raise HarnessError("bad history spec")
    a = alphabet()
    h = Hist()
    h.dag, h.trees, h.deco = dag, trees, deco
    h.objs = dict(a["objs"])
    h.edges = dict(a["edges"])
    h.parents = {}
    h.tag_target = {}
    h.dirs = {}
    h.mem = None

    def commit(tree, parents, when, msg):
        c = Commit()
        c.tree = tree
        c.parents = list(parents)
        c.author = c.committer = IDENT
        c.author_time = c.commit_time = T0 + when
        c.author_timezone = c.commit_timezone = 0
        c.message = msg
        h.objs[c.id] = c
        h.edges[c.id] = (tree,) + tuple(parents)
        h.parents[c.id] = tuple(parents)
        return c.id

    def tag(name, cls, target):
        t = Tag()
        t.name = name
        t.object = (cls, target)
        t.tagger = IDENT
        t.tag_time = T0 + 5000
        t.tag_timezone = 0
        t.message = b"tag " + name + b"\n"
        h.objs[t.id] = t
        h.edges[t.id] = (target,)
        h.tag_target[t.id] = target
        return t.id

    def extra(obj, kids):
        h.objs[obj.id] = obj
        h.edges[obj.id] = tuple(kids)
        return obj.id

    h.commits = [None] * len(dag)
    for i, ps in enumerate(dag):
        root = a["roots"][trees[i]]
        if trees[i] == 2 and i >= 1:
            # the gitlink of tree 2 names a commit of THIS repository (a branch mounted as a submodule
            # of itself): the previous commit in the numbering.  Still never followed for reachability.
            t2 = Tree()
            for name, mode, oid in h.objs[root].iteritems():
                t2.add(name, mode, h.commits[i - 1] if mode == 0o160000 else oid)
            root = extra(t2, h.edges[root])
        h.commits[i] = commit(root, [h.commits[p] for p in ps], 100 * i, b"c%d\n" % i)
    if len(set(h.commits)) != len(dag):
        raise HarnessError("commit ids collide")
    n = len(dag)
    ch = E.children(dag)
    h.sinks = [i for i in range(n) if not ch[i]]
    inner = [i for i in range(n) if ch[i]]
    h.anc = E.ancestors(dag)
    h.refs = {}
    for i in h.sinks:
        h.refs[b"refs/heads/b%d" % i] = h.commits[i]
    if inner:
        h.refs[b"refs/heads/in"] = h.commits[inner[-1]]
    tip = h.commits[n - 1]
    h.tagrefs = {}
    if deco == "tc":
        h.tagrefs[b"refs/tags/tc"] = tag(b"tc", Commit, tip)
    elif deco == "tt":
        h.tagrefs[b"refs/tags/tt"] = tag(b"tt", Tree, a["roots"][(trees[n - 1] + 1) % 5])
    elif deco == "tb":
        bE = extra(Blob.from_string(_lines(9, b"only reachable through a tag\n")), ())
        h.tagrefs[b"refs/tags/tb"] = tag(b"tb", Blob, bE)
    elif deco in ("t2", "t2r"):
        t1 = tag(b"t1", Commit, tip)
        h.tagrefs[b"refs/tags/t2"] = tag(b"t2", Tag, t1)
        if deco == "t2r":
            h.tagrefs[b"refs/tags/t1"] = t1
    h.refs.update(h.tagrefs)
    h.head = b"refs/heads/b%d" % (n - 1)
    # objects reachable from no ref: never to be transmitted
    bX = extra(Blob.from_string(_lines(3, b"orphan\n")), ())
    tX = Tree()
    tX.add(b"q", 0o100644, bX)
    extra(tX, (bX,))
    cX = commit(tX.id, [tip], 9000, b"orphan\n")
    del h.parents[cX]  # not part of the enumerated DAG
    tagX = tag(b"dangling", Commit, cX)
    bY = extra(Blob.from_string(b"dangling blob\n"), ())
    h.orphans = {"commit": cX, "tree": tX.id, "blob": bX, "tag": tagX, "blob2": bY}
    h.sender_ids = frozenset(h.objs)
    # commits only the RECEIVER has (local work on top of what it got earlier): unknown to the sender
    bZ = extra(Blob.from_string(_lines(11, b"receiver-only work\n")), ())
    tZ = Tree()
    tZ.add(b"f", 0o100644, bZ)
    tZ.add(b"w", 0o100644, bZ)
    extra(tZ, (bZ,))
    h.alien = {}
    for i in [None] + list(range(n)):
        cZ = commit(tZ.id, [] if i is None else [h.commits[i]], 8000 + (i or 0), b"local work\n")
        del h.parents[cZ]
        h.alien[i] = cZ
    h.raw = {oid: (o.type_num, o.as_raw_string()) for oid, o in h.objs.items()}
    reach = ref.closure(h.edges, h.refs.values())
    if any(o in reach for o in h.orphans.values()):
        raise HarnessError("orphan objects are reachable")
    _HMEMO[0], _HMEMO[1] = key, h
    return h


def _drop(h):
    for d in h.dirs.values():
        rmtree(d)
    h.dirs.clear()
    h.mem = None


def sender_refs(h):
    return dict(h.refs)


def want_sets(h, maxrefs=3):
    names = sorted(h.refs)
    return [w for k in range(1, maxrefs + 1) for w in itertools.combinations(names, k)]


def receiver_states(h, families=("h", "r"), with_tag=True, with_alien=False):
    """-> list of (downset, family, variant); variant 0 = exactly the closure of the downset,
    1 = plus the decoration tag (objects + ref), 2 = plus a branch with a commit of its own that
    the sender has never seen (child of the newest commit of the downset)."""
    out = []
    n = len(h.dag)
    for D in E.downsets(h.dag):
        for fam in families:
            if not D and fam != families[0]:
                continue
            out.append((D, fam, 0))
            if with_tag and h.tagrefs:
                t = ref.peel(h.tag_target, [h.tagrefs[sorted(h.tagrefs)[-1]]])[0]
                if t not in h.parents or (n - 1) in D:
                    out.append((D, fam, 1))
            if with_alien:
                out.append((D, fam, 2))
    return out


def receiver_plan(h, D, fam, rtag):
    """-> (object ids, refs) the receiver starts with."""
    mask = sum(1 << i for i in D)
    maximal = [i for i in D if not any(j != i and (h.anc[j] >> i) & 1 for j in D)]
    prefix = b"refs/heads/r%d" if fam == "h" else b"refs/remotes/o/r%d"
    refs = {prefix % i: h.commits[i] for i in maximal}
    if rtag == 1:
        refs.update(h.tagrefs)
    elif rtag == 2:
        refs[b"refs/heads/mine" if fam == "h" else b"refs/remotes/o/mine"] = h.alien[max(D) if D else None]
    ids = ref.closure(h.edges, refs.values())
    if E.reach(h.anc, D) != mask:
        raise HarnessError("not a downset: %r" % (D,))
    return ids, refs


# --------------------------------------------------------------------------- repositories


def _mem_repo(h, ids, refs, head=None):
    from dulwich.repo import MemoryRepo

    r = MemoryRepo()
    for oid in sorted(ids):
        r.object_store.add_object(h.objs[oid])
    for k, v in refs.items():
        r.refs[k] = v
    if head:
        r.refs.set_symbolic_ref(b"HEAD", head)
    return r


_TEMPLATE = [None]


def _bare_dir(prefix="r"):
    """Fresh bare repository directory (copy of one Repo.init_bare result per process)."""
    import shutil

    from dulwich.repo import Repo

    if _TEMPLATE[0] is None or not os.path.isdir(_TEMPLATE[0]):
        t = fresh_dir("tmpl")
        Repo.init_bare(t).close()
        for sub in ("hooks", "description", os.path.join("info", "exclude")):
            p = os.path.join(t, sub)
            if os.path.isdir(p):
                shutil.rmtree(p)
            elif os.path.exists(p):
                os.unlink(p)
        _TEMPLATE[0] = t
    d = fresh_dir(prefix)
    os.rmdir(d)
    shutil.copytree(_TEMPLATE[0], d)
    return d


def _disk_repo(h, ids, refs, head=None, prefix="r", packed=False, keep_open=False):
    """Bare disk repository holding exactly ``ids`` (loose files, or one pack written by dulwich)."""
    from dulwich.repo import Repo

    d = _bare_dir(prefix)
    r = Repo(d)
    try:
        if packed and ids:
            r.object_store.add_objects([(h.objs[oid], None) for oid in sorted(ids)])
        else:
            for oid in sorted(ids):
                r.object_store.add_object(h.objs[oid])
        for k, v in refs.items():
            r.refs[k] = v
        if head:
            r.refs.set_symbolic_ref(b"HEAD", head)
    except BaseException:
        r.close()
        raise
    if keep_open:
        return r
    r.close()
    return d


def sender_mem(h):
    if h.mem is None:
        h.mem = _mem_repo(h, h.sender_ids, h.refs, h.head)
    return h.mem


def sender_dir(h, storage):
    """Disk sender holding every object of the history (incl. the unreachable ones).
    storage: 'loose' | 'packed' (git repack -adf: deltas between the near-copy blobs/trees;
    unreachable objects stay loose)."""
    if storage in h.dirs:
        return h.dirs[storage]
    d = _disk_repo(h, h.sender_ids, h.refs, h.head, prefix="s")
    if storage == "packed":
        git(["-c", "pack.threads=1", "repack", "-a", "-d", "-f", "-q", "--window=10", "--depth=10"], cwd=d)
        git(["prune-packed", "-q"], cwd=d)
    elif storage != "loose":
        raise HarnessError("storage " + storage)
    h.dirs[storage] = d
    return d


def store_ids(repo):
    return set(repo.object_store)


# --------------------------------------------------------------------------- the verdict


def _role(h, oid, commit_reach):
    t = TYPE[h.raw[oid][0]]
    return t if oid in commit_reach else t + "-only-via-tag"


def judge(acc, site, h, repo, before_ids, xfer_ids, want_ids, sent, include_tag, depth, replay, desc,
          allow_extra=frozenset(), shallow_before=frozenset()):
    """Evaluate oracle clauses (1)-(4) on the receiver ``repo`` (an open dulwich repository).

    site       'transport:direction' — first two components of every violation key
    xfer_ids   ids the transferred refs name on the receiver (== want_ids for fetch / push)
    sent       set of hex ids seen in the transmitted pack (None if not captured)
    """
    store = repo.object_store
    try:
        shallow = set(repo.get_shallow())
    except Exception:
        shallow = set()
    unknown = [s for s in shallow if s not in h.parents]
    if unknown:
        acc.violation("%s:shallow:names-unknown-commit" % site, "%s shallow file lists %r" % (desc, unknown), replay)
        shallow -= set(unknown)
    tips = ref.peel(h.tag_target, want_ids)
    inside, _frontier = set(), set()
    commit_reach = ref.closure(h.edges, [t for t in tips if t in h.parents])
    full = ref.closure(h.edges, want_ids)
    # (1)/(4) completeness of what was transferred
    if depth:
        inside, _frontier = ref.depth_levels(h.parents, tips, depth)  # noqa: F841
        need = set()
        for w in xfer_ids:
            o = w
            need.add(o)
            while o in h.tag_target:
                o = h.tag_target[o]
                need.add(o)
            if o not in h.parents:
                need |= ref.closure(h.edges, [o])
        for c in inside:
            need |= ref.closure(h.edges, [c], cut={c})
        clause = "depth-closure"
    else:
        grown = sorted(shallow - set(shallow_before))
        if grown:
            acc.violation("%s:shallow:boundary-added-without-depth-request" % site,
                          "%s: shallow set grew by %r" % (desc, [g.decode()[:10] for g in grown]), replay)
        # a receiver that was shallow before keeps its boundary: the closure is cut there (and only there)
        need = ref.closure(h.edges, xfer_ids, cut=shallow & set(shallow_before))
        clause = "closure"
    missing = sorted(o for o in need if o not in store)
    if missing:
        roles = sorted({_role(h, o, commit_reach) for o in missing})
        qual = ""
        if shallow_before:
            qual += ":into-shallow-receiver"
        if sent is not None and not sent:
            qual += ":no-pack-received"
        for r_ in roles:
            acc.violation("%s:%s-incomplete%s:%s-missing" % (site, clause, qual, r_),
                          "%s: receiver lacks %d object(s) of the transferred closure, e.g. %s %s"
                          % (desc, len(missing), TYPE[h.raw[missing[0]][0]], missing[0].decode()), replay)
    # (1b) complete before => complete after: every ref of the receiver
    refs = repo.get_refs()
    bad = sorted(k for k, v in refs.items() if v not in h.raw)
    if bad:
        acc.violation("%s:refs:names-unknown-object" % site, "%s: refs %r name objects outside the history" % (desc, bad), replay)
    if depth:
        # (4) a commit that arrived without (all of) its parents must be recorded as shallow;
        # otherwise the receiver now has history with dangling parents
        reach = ref.closure(h.edges, [v for v in refs.values() if v in h.raw], cut=shallow)
        unmarked = sorted(c for c in reach if c in h.parents and c not in shallow and c in store
                          and any(p not in store for p in h.parents[c]))
        if unmarked:
            acc.violation("%s:shallow:boundary-commit-not-recorded-as-shallow" % site,
                          "%s: commit(s) %r arrived without their parents but the receiver's shallow set is %r"
                          % (desc, [u.decode()[:10] for u in unmarked], sorted(x.decode()[:10] for x in shallow)), replay)
            shallow |= set(unmarked)
    allneed = ref.closure(h.edges, [v for v in refs.values() if v in h.raw], cut=shallow)
    miss2 = sorted(o for o in allneed if o not in store and o not in missing)
    if miss2:
        roles = sorted({TYPE[h.raw[o][0]] for o in miss2})
        acc.violation("%s:receiver-no-longer-complete:%s-missing" % (site, "+".join(roles)),
                      "%s: closure of the receiver's refs %r (cut at shallow %r) lacks %d object(s), e.g. %s"
                      % (desc, sorted(refs), sorted(shallow), len(miss2), miss2[0].decode()), replay)
    # (2) identity
    for o in sorted(need | allneed):
        if o in missing or o in miss2:
            continue
        try:
            got = store.get_raw(o)
        except Exception as e:  # listed but unreadable
            acc.violation("%s:identity:%s-unreadable" % (site, TYPE[h.raw[o][0]]),
                          "%s: %s present but get_raw raises %s" % (desc, o.decode(), type(e).__name__), replay)
            continue
        if (got[0], bytes(got[1])) != h.raw[o]:
            acc.violation("%s:identity:%s-bytes-differ" % (site, TYPE[h.raw[o][0]]),
                          "%s: object %s differs from the sender's" % (desc, o.decode()), replay)
    # (3) containment
    allowed = set(full) | set(allow_extra)
    if include_tag:
        for name, t in h.tagrefs.items():
            chain = [t]
            while chain[-1] in h.tag_target:
                chain.append(h.tag_target[chain[-1]])
            if chain[-1] in full:
                allowed.update(chain)
    advertised = ref.closure(h.edges, h.refs.values())
    after_ids = store_ids(repo)
    arrived = after_ids - before_ids
    for label, ids in (("wire", sent), ("stored", arrived)):
        if ids is None:
            continue
        alien = sorted(o for o in ids if o not in h.raw)
        if alien:
            acc.violation("%s:containment:%s-object-not-in-history" % (site, label),
                          "%s: %s id(s) %r exist nowhere on the sender" % (desc, label, alien[:3]), replay)
        ids = set(ids) - set(alien)
        unadv = sorted(o for o in ids if o not in advertised)
        if unadv:
            acc.violation("%s:containment:%s-unreachable-from-advertised-refs:%s"
                          % (site, label, "+".join(sorted({TYPE[h.raw[o][0]] for o in unadv}))),
                          "%s: transmitted %d object(s) no advertised ref reaches, e.g. %s" % (desc, len(unadv), unadv[0].decode()), replay)
        outside = sorted(o for o in ids if o in advertised and o not in allowed)
        if outside:
            acc.violation("%s:containment:%s-outside-closure-of-wants:%s"
                          % (site, label, "+".join(sorted({TYPE[h.raw[o][0]] for o in outside}))),
                          "%s: transmitted %d object(s) outside closure(wants)%s, e.g. %s %s"
                          % (desc, len(outside), " + auto-followed tags" if include_tag else "",
                             TYPE[h.raw[outside[0]][0]], outside[0].decode()), replay)
    lost = sorted(before_ids - after_ids)
    if lost:
        acc.violation("%s:receiver-lost-objects" % site, "%s: %d object(s) present before are gone" % (desc, len(lost)), replay)
    # outcome class (vacuity guard material)
    resent = len((sent or set()) & before_ids)
    cls = "%s:%s:%s" % (
        site,
        "empty" if not before_ids else "partial" if not full <= before_ids else "has-all",
        "nothing-sent" if sent is not None and not sent else "minimal" if sent is not None and not resent else
        "resends" if sent is not None else "uncaptured",
    )
    if depth:
        cls += ":depth%d:%s" % (depth, "shallow" if shallow else "no-shallow")
        if not before_ids and not shallow_before:
            # informational: does the recorded boundary equal the reference frontier (commits at
            # shortest distance depth-1 that have parents)?  Parentless commits may or may not be listed.
            rec = {c for c in shallow if h.parents.get(c)}
            acc.outcome("%s:depth-boundary:%s" % (site, "equals-reference-frontier" if rec == _frontier else
                                                  "inside-frontier" if rec - _frontier and any(
                                                      c in inside and c not in _frontier for c in rec) else "differs"))
    if not acc.samples:
        acc.sample("%s -> %s (sent %s objects, receiver had %d, has %d)"
                   % (desc, cls, "?" if sent is None else len(sent), len(before_ids), len(after_ids)))
    return cls


# --------------------------------------------------------------------------- in-process transfers


def _tee_add_pack_data(store, sink):
    from dulwich.objects import sha_to_hex

    orig = store.add_pack_data

    def wrapped(count, unpacked, progress=None):
        lst = list(unpacked)
        sink.append((count, [sha_to_hex(u.sha()) for u in lst], sum(1 for u in lst if u.delta_base is not None)))
        return orig(count, iter(lst), progress)

    store.add_pack_data = wrapped


def _desc(h, D, fam, rtag, wants, mode, opts):
    return "dag=%r trees=%r deco=%s peer=%r/%s%s wants=%s %s %s" % (
        h.dag, h.trees, h.deco, tuple(D), fam, ("", "+tag", "+own-commit")[rtag],
        ",".join(w.decode().split("/", 2)[-1] for w in wants), mode, dict(opts) if opts else "")


def _pre_name(fam):
    """Ref under which the earlier shallow fetch left its tip: a local branch (so it is offered as
    a have, as after `clone --depth`) in family h, a remote-tracking ref in family r."""
    return b"refs/heads/pre" if fam == "h" else b"refs/remotes/x/pre"


def _xfer_name(w):
    """Name under which the receiver files a fetched ref."""
    if w.startswith(b"refs/tags/"):
        return w
    return b"refs/remotes/x/" + w.split(b"/", 2)[-1]


def case_inproc(acc: Acc, dag, trees, deco, D, fam, rtag, wants, mode, opts=()):
    """One in-process transfer.  mode: mem-fetch | local-fetch | local-clone | local-push.
    opts: tuple of (key, value): depth, storage."""
    from dulwich.client import LocalGitClient
    from dulwich.repo import Repo

    h = history(dag, trees, deco)
    o = dict(opts)
    depth = o.get("depth")
    storage = o.get("storage", "loose")
    pre = o.get("pre")  # (ref name, depth): an earlier shallow fetch into the same receiver
    shallow_before = frozenset()
    wants = tuple(wants)
    D = tuple(D)
    desc = _desc(h, D, fam, rtag, wants, mode, opts)
    replay = rp(case_inproc, dag, trees, deco, D, fam, rtag, wants, mode, tuple(opts))
    site = mode.replace("-", ":")
    acc.count("inproc_cases")
    rids, rrefs = receiver_plan(h, D, fam, rtag)
    want_ids = [h.refs[w] for w in wants]
    sink = []
    tmp = []
    repo = None
    try:
        if mode == "mem-fetch":
            src = sender_mem(h)
            repo = _mem_repo(h, rids, rrefs)
            before = store_ids(repo)
            if pre:
                try:
                    src.fetch(repo, determine_wants=lambda refs, depth=None: [h.refs[pre[0]]], depth=pre[1])
                except Exception as e:
                    acc.outcome("%s:pre-step-error:%s" % (site, type(e).__name__))
                    return
                repo.refs[_pre_name(fam)] = h.refs[pre[0]]
                before = store_ids(repo)
                shallow_before = frozenset(repo.get_shallow())
            _tee_add_pack_data(repo.object_store, sink)
            try:
                src.fetch(repo, determine_wants=lambda refs, depth=None: list(want_ids), depth=depth)
            except Exception as e:
                acc.outcome("%s:error:%s" % (site, type(e).__name__))
                acc.sample("ERROR %s: %r" % (desc, e))
                return
            for w in wants:
                repo.refs[_xfer_name(w)] = h.refs[w]
            xfer = want_ids
        elif mode == "local-fetch":
            sdir = sender_dir(h, storage)
            rdir = _disk_repo(h, rids, rrefs)
            tmp.append(rdir)
            repo = Repo(rdir)
            before = store_ids(repo)
            if pre:
                try:
                    LocalGitClient().fetch(sdir, repo, determine_wants=lambda refs, depth=None: [h.refs[pre[0]]], depth=pre[1])
                except Exception as e:
                    acc.outcome("%s:pre-step-error:%s" % (site, type(e).__name__))
                    return
                repo.refs[_pre_name(fam)] = h.refs[pre[0]]
                repo.close()
                repo = Repo(rdir)
                before = store_ids(repo)
                shallow_before = frozenset(repo.get_shallow())
            _tee_add_pack_data(repo.object_store, sink)
            try:
                res = LocalGitClient().fetch(sdir, repo, determine_wants=lambda refs, depth=None: list(want_ids), depth=depth)
            except Exception as e:
                acc.outcome("%s:error:%s" % (site, type(e).__name__))
                acc.sample("ERROR %s: %r" % (desc, e))
                return
            adv = {k: v for k, v in res.refs.items() if k != b"HEAD"}
            if adv != h.refs:
                acc.outcome("%s:advertised-refs-differ" % site)
            for w in wants:
                repo.refs[_xfer_name(w)] = h.refs[w]
            repo.close()
            repo = Repo(rdir)  # judge on a re-opened repository
            xfer = want_ids
        elif mode == "local-clone":
            sdir = sender_dir(h, storage)
            top = fresh_dir("c")
            tmp.append(top)
            rdir = os.path.join(top, "clone")
            before = set()
            try:
                repo = LocalGitClient().clone(sdir, rdir, mkdir=True, bare=True, depth=depth)
            except Exception as e:
                acc.outcome("%s:error:%s" % (site, type(e).__name__))
                acc.sample("ERROR %s: %r" % (desc, e))
                return
            repo.close()
            repo = Repo(rdir)
            got = repo.get_refs()
            want_ids = sorted(set(h.refs.values()))
            xfer = sorted(set(got.values()))
            if not set(h.refs.values()) <= set(xfer):
                acc.outcome("%s:some-refs-not-cloned" % site)
        elif mode == "local-push":
            sdir = sender_dir(h, storage)
            rdir = _disk_repo(h, rids, rrefs)
            tmp.append(rdir)
            r0 = Repo(rdir)
            before = store_ids(r0)
            r0.close()
            src = Repo(sdir)
            try:
                def gen(have, want, **kw):
                    from dulwich.objects import sha_to_hex

                    count, it = src.generate_pack_data(have, want, **kw)
                    lst = list(it)
                    sink.append((count, [sha_to_hex(u.sha()) for u in lst], sum(1 for u in lst if u.delta_base is not None)))
                    return count, iter(lst)

                def update(old):
                    new = dict(old)
                    for w in wants:
                        new[w] = h.refs[w]
                    return new

                try:
                    res = LocalGitClient().send_pack(rdir, update, gen)
                except Exception as e:
                    acc.outcome("%s:error:%s" % (site, type(e).__name__))
                    acc.sample("ERROR %s: %r" % (desc, e))
                    return
            finally:
                src.close()
            failed = {k: v for k, v in (res.ref_status or {}).items() if v}
            if failed:
                acc.outcome("%s:rejected" % site)
                acc.sample("REJECTED %s: %r" % (desc, failed))
                return
            repo = Repo(rdir)
            got = repo.get_refs()
            notset = [w for w in wants if got.get(w) != h.refs[w]]
            if notset:
                acc.violation("%s:refs:reported-ok-but-not-set" % site, "%s: %r" % (desc, notset), replay)
            xfer = want_ids
        else:
            raise HarnessError("mode " + mode)
        sent = None
        if sink:
            sent = set()
            for count, ids, ndelta in sink:
                if count != len(ids):
                    acc.violation("%s:pack:declared-count-differs" % site, "%s: header %d, %d objects" % (desc, count, len(ids)), replay)
                sent.update(ids)
                if ndelta:
                    acc.count("packs_with_deltas")
        elif mode != "local-clone":
            sent = set()
        cls = judge(acc, site, h, repo, before, xfer, want_ids, sent, False, depth, replay, desc,
                    shallow_before=shallow_before)
        acc.outcome(cls + (":after-depth%d-fetch" % pre[1] if pre else ""))
        if o.get("fsck") and mode != "mem-fetch":
            _fsck(acc, site, repo.path, replay, desc)
    finally:
        if repo is not None:
            repo.close()
        for d in tmp:
            rmtree(d)


def _fsck(acc, site, path, replay, desc):
    p = git(["fsck", "--connectivity-only", "--no-dangling", "--no-progress"], cwd=path, check=False)
    acc.count("fsck_runs")
    if p.returncode != 0:
        err = [ln for ln in (p.stderr + p.stdout).decode("utf-8", "replace").strip().splitlines()
               if not ln.startswith("notice:")]
        text = " ".join(err)
        word = ("invalid-sha1-pointer" if "invalid sha1 pointer" in text else "broken-link" if "broken link" in text
                else "missing" if "missing" in text else "other")
        acc.violation("%s:git-fsck:%s" % (site, word), "%s: git fsck --connectivity-only: %s" % (desc, " | ".join(err[:3])), replay)


# --------------------------------------------------------------------------- protocol transfers

TRANSPORTS = ("tcp", "http", "cgit-srv", "cgit-tcp", "cgit-http")
_SRV = {}
CASE_TIMEOUT = 60


class _Timeout(Exception):
    pass


def _alarm(signum, frame):
    raise _Timeout()


def server(kind):
    from engines import xfer

    s = _SRV.get(kind)
    if s is None:
        s = _SRV[kind] = xfer.TcpServer() if kind == "tcp" else xfer.HttpServer()
    return s


def close_servers(abandon=False):
    for k in list(_SRV):
        s = _SRV.pop(k)
        if abandon:  # a handler thread may be wedged: do not join it
            try:
                s.srv.socket.close()
            except Exception:
                pass
            continue
        s.close()


class _BackendWrap:
    """A BackendRepo that is not itself a Repo but exposes one as ``.repo`` — the only kind of
    backend for which UploadPackHandler.get_tagged (include-tag) does anything at all
    (server.py: ``repo = getattr(self.repo, "repo", None); if repo is None: return {}``)."""

    def __init__(self, repo):
        self.repo = repo

    def __getattr__(self, name):
        return getattr(self.repo, name)


def _git_process_env():
    """C git started by dulwich's SubprocessGitClient inherits os.environ: make it the clean one."""
    from engines.common import git_env

    for k in list(os.environ):
        if k.startswith("GIT_"):
            del os.environ[k]
    os.environ.update(git_env())


def _client(transport, o, url_or_none):
    from dulwich import client as dc
    from dulwich.protocol import (
        CAPABILITY_MULTI_ACK,
        CAPABILITY_MULTI_ACK_DETAILED,
        CAPABILITY_NO_DONE,
        CAPABILITY_OFS_DELTA,
        CAPABILITY_SIDE_BAND_64K,
    )

    kw = dict(thin_packs=bool(o.get("thin", 1)), include_tags=bool(o.get("itag", 0)))
    if transport == "tcp":
        c = dc.TCPGitClient("127.0.0.1", port=url_or_none, **kw)
    elif transport == "http":
        c = dc.Urllib3HttpGitClient(url_or_none, **kw)
    elif transport == "cgit-srv":
        c = dc.SubprocessGitClient(**kw)
    else:
        raise HarnessError("no dulwich client for " + transport)
    ack = o.get("ack", "detailed")
    if ack in ("single", "multi"):
        c._fetch_capabilities.discard(CAPABILITY_MULTI_ACK_DETAILED)
    if ack == "single":
        c._fetch_capabilities.discard(CAPABILITY_MULTI_ACK)
    if o.get("nodone"):
        c._fetch_capabilities.add(CAPABILITY_NO_DONE)
    if not o.get("ofs", 1):
        c._fetch_capabilities.discard(CAPABILITY_OFS_DELTA)
        c._send_capabilities.discard(CAPABILITY_OFS_DELTA)
    if not o.get("sb", 1):
        c._fetch_capabilities.discard(CAPABILITY_SIDE_BAND_64K)
        c._send_capabilities.discard(CAPABILITY_SIDE_BAND_64K)
    return c


def _server_drop(o):
    """Capabilities the dulwich server must not advertise (narrowing for C git clients)."""
    drop = []
    ack = o.get("ack", "detailed")
    if ack in ("single", "multi"):
        drop.append(b"multi_ack_detailed")
    if ack == "single":
        drop.append(b"multi_ack")
    if not o.get("nodone", 1):
        drop.append(b"no-done")
    if not o.get("srv_itag", 1):
        drop.append(b"include-tag")
    return drop


def _tee_fetch_pack(client, sink):
    orig = client.fetch_pack

    def fetch_pack(path, determine_wants, graph_walker, pack_data, *a, **kw):
        def tee(data):
            sink.append(bytes(data))
            return pack_data(data)

        return orig(path, determine_wants, graph_walker, tee, *a, **kw)

    client.fetch_pack = fetch_pack


def _tee_connect(client, sink):
    """Record what a TraditionalGitClient writes to its peer."""
    orig = client._connect

    def _connect(*a, **kw):
        proto, can_read, stderr = orig(*a, **kw)
        w = proto.write

        def write(data):
            sink.append(bytes(data))
            return w(data)

        proto.write = write
        return proto, can_read, stderr

    client._connect = _connect


def _subprocess_quiescent(proc, timeout=30.0):
    """Wait until the C git child has exited, or sleeps in read(0, ...) with an empty stdin pipe:
    everything it is going to write without further input is then in its stdout pipe."""
    import array
    import fcntl
    import termios
    import time

    base = "/proc/%d/" % proc.pid
    t0 = time.monotonic()
    fields = None
    while True:
        if proc.poll() is not None:
            return
        try:
            with open(base + "syscall") as f:
                fields = f.read().split()
            with open(base + "stat") as f:
                state = f.read().rsplit(")", 1)[1].split()[0]
        except OSError:
            return  # gone
        if len(fields) >= 2 and fields[0] == "0" and int(fields[1], 16) == 0 and state == "S":
            buf = array.array("i", [0])
            try:
                fcntl.ioctl(proc.stdin.fileno(), termios.FIONREAD, buf)
            except (OSError, ValueError):
                return
            if buf[0] == 0:
                return
        if time.monotonic() - t0 > timeout:
            raise HarnessError("git child neither sleeping in read(0) nor exited: %r" % (fields[:2],))
        time.sleep(0.0002)


def _net_model(client, model, srv):
    """Own the one timing-dependent decision of dulwich's fetch client: ``can_read()`` polls the
    socket while haves are being sent (client._handle_upload_pack_head).  Two legal extremes are
    enumerated instead of leaving it to the scheduler:
      lazy   the poll never sees data (slow server / fast client)
      eager  the poll is answered only once the server is quiescent (blocked waiting for the
             client, or finished), i.e. it sees everything the server could have said by then
    """
    orig = client._connect

    def _connect(*a, **kw):
        proto, can_read, stderr = orig(*a, **kw)
        if can_read is None:
            return proto, can_read, stderr
        if model == "lazy":
            return proto, (lambda: False), stderr
        if srv is not None:
            consumed = [0]
            written = [0]
            rd, wr = proto.read, proto.write

            def read(n):
                data = rd(n)
                consumed[0] += len(data)
                return data

            def write(data):
                written[0] += len(data)
                return wr(data)

            proto.read, proto.write = read, write

            def eager():
                return srv.wire.quiescent(written[0]) > consumed[0]

            return proto, eager, stderr
        proc = can_read.__self__.proc

        def eager_pipe():
            _subprocess_quiescent(proc)
            return can_read()

        return proto, eager_pipe, stderr

    client._connect = _connect


def _index(acc, site, h, pack, replay, desc, label):
    """ids of a captured pack via the independent parser; None when nothing was captured."""
    from engines import xfer
    from engines.refmodels.packfile import FormatError

    if not pack:
        return set()
    try:
        ids, thin, ndelta = xfer.pack_ids(pack, h.raw)
    except FormatError as e:
        acc.violation("%s:wire-pack:%s:%s" % (site, label, e.code), "%s: pack on the wire does not parse: %s" % (desc, e), replay)
        return None
    if thin:
        acc.count("thin_packs_on_wire")
    if ndelta:
        acc.count("delta_packs_on_wire")
    return ids


def case_proto(acc: Acc, dag, trees, deco, D, fam, rtag, wants, transport, direction, opts=()):
    """One transfer over a real transport.  opts: tuple of (key, value) among
    depth, storage, ack, nodone, itag, thin, ofs, sb, pv, tags(0 = --no-tags), hostile, fsck, net, wrap, pre."""
    import signal

    o = dict(opts)
    h = history(dag, trees, deco)
    wants = tuple(wants)
    D = tuple(D)
    site = "%s:%s" % (transport, direction)
    desc = _desc(h, D, fam, rtag, wants, site, opts)
    replay = rp(case_proto, dag, trees, deco, D, fam, rtag, wants, transport, direction, tuple(opts))
    acc.count("proto_cases")
    acc.count("proto_cases[%s]" % site)
    old = signal.signal(signal.SIGALRM, _alarm)
    signal.alarm(CASE_TIMEOUT)
    try:
        _case_proto(acc, h, D, fam, rtag, wants, transport, direction, o, site, desc, replay)
    except _Timeout:
        acc.outcome("%s:error:timeout" % site)
        acc.sample("TIMEOUT %s" % desc)
        close_servers(abandon=True)
    finally:
        signal.alarm(0)
        signal.signal(signal.SIGALRM, old)


def _case_proto(acc, h, D, fam, rtag, wants, transport, direction, o, site, desc, replay):
    from dulwich.repo import Repo

    depth = o.get("depth")
    storage = o.get("storage", "packed")
    pre = o.get("pre")
    shallow_before = frozenset()
    cgit_client = transport in ("cgit-tcp", "cgit-http")
    srv = None
    if transport != "cgit-srv":
        srv = server("tcp" if transport in ("tcp", "cgit-tcp") else "http")
    rids, rrefs = receiver_plan(h, D, fam, rtag)
    before = set(rids)
    if o.get("hostile"):
        want_ids = [h.orphans[o["hostile"]]]
    else:
        want_ids = [h.refs[w] for w in wants]
    include_tag = bool(o.get("itag")) or (cgit_client and direction != "push" and o.get("tags", 1))
    tmp = []
    opened = []
    client_pack = []
    client_tx = []
    repo = None
    failed = None
    env_pv = None
    try:
        sdir = sender_dir(h, storage)
        if direction == "clone":
            top = fresh_dir("c")
            tmp.append(top)
            rdir = os.path.join(top, "clone")
            before = set()
        else:
            rdir = _disk_repo(h, rids, rrefs, packed=bool(o.get("rpacked", 1)))
            tmp.append(rdir)
        # ---- server side
        if srv is not None:
            served = Repo(sdir if direction != "push" else rdir)
            opened.append(served)
            srv.serve(_BackendWrap(served) if o.get("wrap") else served,
                      drop_upload=_server_drop(o) if cgit_client else (), drop_receive=())
        if transport == "cgit-srv":
            _git_process_env()
            if o.get("pv") == 2:
                os.environ["GIT_PROTOCOL"] = "version=2"
                env_pv = True
        # ---- the transfer
        try:
            if not cgit_client:
                where = srv.port if transport == "tcp" else srv.url() if transport == "http" else None
                c = _client(transport, o, where)
                if transport != "http":
                    _net_model(c, o.get("net", "eager"), srv)
                path = "/" if srv is not None else (sdir if direction != "push" else rdir)
                if direction == "fetch":
                    target = Repo(rdir)
                    opened.append(target)
                    if pre:
                        c0 = _client(transport, {k: v for k, v in o.items() if k in ("pv",)}, where)
                        if transport != "http":
                            _net_model(c0, "lazy", srv)
                        c0.fetch(path, target, determine_wants=lambda refs, depth=None: [h.refs[pre[0]]], depth=pre[1],
                                 protocol_version=o.get("pv"))
                        target.refs[_pre_name(fam)] = h.refs[pre[0]]
                        before = store_ids(target)
                        shallow_before = frozenset(target.get_shallow())
                        if srv is not None:
                            srv.wait_idle()
                            srv.wire.reset()
                    _tee_fetch_pack(c, client_pack)
                    c.fetch(path, target, determine_wants=lambda refs, depth=None: list(want_ids), depth=depth,
                            protocol_version=o.get("pv"))
                    if not o.get("hostile"):
                        for w in wants:
                            target.refs[_xfer_name(w)] = h.refs[w]
                    xfer = [] if o.get("hostile") else want_ids
                elif direction == "clone":
                    _tee_fetch_pack(c, client_pack)
                    r = c.clone(path, rdir, mkdir=True, bare=True, depth=depth, protocol_version=o.get("pv"))
                    r.close()
                    xfer = None
                else:
                    src = Repo(sdir)
                    opened.append(src)
                    if transport != "http":
                        _tee_connect(c, client_tx)

                    def update(oldrefs):
                        new = dict(oldrefs)
                        for w in wants:
                            new[w] = h.refs[w]
                        return new

                    res = c.send_pack(path, update, src.generate_pack_data)
                    bad = {k: v for k, v in (res.ref_status or {}).items() if v}
                    if bad:
                        failed = "rejected:%s" % sorted(bad.values())[0][:40]
                    xfer = want_ids
            else:
                url = srv.url()
                cfg = ["-c", "protocol.version=%d" % o.get("pv", 0), "-c", "gc.auto=0", "-c", "maintenance.auto=0",
                       "-c", "fetch.writeCommitGraph=false", "-c", "transfer.unpackLimit=%d" % o.get("unpack", 100)]
                if direction == "fetch":
                    if pre:
                        git(cfg + ["fetch", "-q", "--no-tags", "--depth=%d" % pre[1], url,
                                   (pre[0] + b":" + _pre_name(fam)).decode()], cwd=rdir, timeout=CASE_TIMEOUT)
                        srv.wait_idle()
                        srv.wire.reset()
                        r0 = Repo(rdir)
                        before = store_ids(r0)
                        shallow_before = frozenset(r0.get_shallow())
                        r0.close()
                    specs = [(w + b":" + _xfer_name(w)).decode() for w in wants]
                    args = cfg + ["fetch", "-q"] + ([] if o.get("tags", 1) else ["--no-tags"]) + \
                        (["--depth=%d" % depth] if depth else []) + [url] + specs
                    p = git(args, cwd=rdir, check=False, timeout=CASE_TIMEOUT)
                    xfer = want_ids
                elif direction == "clone":
                    args = cfg + ["clone", "-q", "--bare"] + ([] if o.get("tags", 1) else ["--no-tags"]) + \
                        (["--depth=%d" % depth] if depth else []) + [url, rdir]
                    p = git(args, check=False, timeout=CASE_TIMEOUT)
                    xfer = None
                else:
                    specs = [(w + b":" + w).decode() for w in wants]
                    args = cfg + ["push", "-q"] + ([] if o.get("thin", 1) else ["--no-thin"]) + [url] + specs
                    p = git(args, cwd=sdir, check=False, timeout=CASE_TIMEOUT)
                    xfer = want_ids
                if p.returncode != 0:
                    msg = p.stderr.decode("utf-8", "replace").strip().splitlines()
                    failed = "git-exit-%d:%s" % (p.returncode, (msg[-1] if msg else "")[:60])
        except _Timeout:
            raise
        except Exception as e:
            failed = "%s" % type(e).__name__
            if failed == "HangupException" or (failed == "GitProtocolError" and
                                               any(w in str(e) for w in ("Broken pipe", "Connection reset"))):
                # the peer closed the connection; whether the client notices while reading or while
                # writing depends on timing — one class
                failed = "peer-closed-connection"
            acc.sample("ERROR %s: %r" % (desc, e))
        finally:
            if env_pv:
                del os.environ["GIT_PROTOCOL"]
        if srv is not None:
            srv.wait_idle()
        for r in opened:
            r.close()
        del opened[:]
        server_errors = list(srv.errors) if srv is not None else []
        # ---- what went over the wire
        sent = None
        packs = []
        wire_wants = set()
        if srv is not None:
            from engines import xfer as X

            for conn in list(srv.wire.conns):
                if conn["service"] == "upload-pack":
                    pack, _rest, fatal = X.sideband_pack(conn["tx"])
                    if pack:
                        packs.append(("server-tx", pack))
                    for pl in X.split_pkts(conn["rx"])[0]:
                        if pl and pl.startswith(b"want ") and len(pl) >= 45:
                            wire_wants.add(pl[5:45])
                else:
                    pack, _cmds = X.push_pack(conn["rx"])
                    if pack:
                        packs.append(("server-rx", pack))
        if client_pack:
            packs.append(("client-rx", b"".join(client_pack)))
        if client_tx:
            from engines import xfer as X

            pack, _cmds = X.push_pack(_skip_tcp_request(b"".join(client_tx)))
            if pack:
                packs.append(("client-tx", pack))
        if failed is None or packs:
            sent = set()
            for label, pack in packs:
                ids = _index(acc if failed is None else Acc(), site, h, pack, replay, desc, label)
                if ids is None:
                    sent = None
                    break
                sent |= ids
            srvp = [p_ for l_, p_ in packs if l_.startswith("server")]
            clip = [p_ for l_, p_ in packs if l_.startswith("client")]
            if len(srvp) == 1 and len(clip) == 1 and srvp[0] != clip[0]:
                acc.violation("%s:wire:client-and-server-see-different-pack" % site, desc, replay)
        if os.path.isdir(rdir):
            repo = Repo(rdir)
        if failed is not None:
            # not a successful transfer: the statement demands nothing of the receiver, but the
            # sender must still not have leaked anything (containment on what was captured)
            acc.outcome("%s:failed:%s" % (site, failed.split(":")[0]))
            if len(acc.samples) < 6:
                acc.sample("FAILED %s: %s %s" % (desc, failed, server_errors[-1].strip().splitlines()[-1] if server_errors else ""))
            if sent and repo is not None:
                _containment_only(acc, site, h, sent, want_ids, include_tag, replay, desc)
            return
        if repo is None:
            acc.violation("%s:clone:no-repository-created" % site, desc, replay)
            return
        if o.get("hostile"):
            _containment_only(acc, site, h, sent or set(), [], False, replay, desc)
            acc.outcome("%s:hostile-want-served:%d-objects" % (site, len(sent or ())))
            return
        got = repo.get_refs()
        if wire_wants and direction != "push":
            # what was really asked for on the wire (C git asks for auto-followed tags in a second
            # request; a clone decides its wants itself)
            unknown = sorted(w for w in wire_wants if w not in h.raw)
            if unknown:
                raise HarnessError("client wanted ids outside the history: %r" % unknown)
            if not cgit_client and direction == "fetch" and wire_wants != set(want_ids):
                acc.outcome("%s:wire-wants-differ-from-determine_wants" % site)
            want_ids = sorted(wire_wants | (set(want_ids) if direction == "fetch" else set()))
        if xfer is None:  # clone: everything the clone recorded
            xfer = sorted(v for v in set(got.values()) if v in h.raw)
            if not wire_wants:
                want_ids = sorted(set(h.refs.values()))
        elif cgit_client and direction == "fetch":
            # refs C git created on its own (auto-followed tags) are transferred refs as well
            extra = [v for k, v in got.items() if rrefs.get(k) != v and v in h.raw]
            xfer = sorted(set(xfer) | set(extra))
        if direction == "push":
            notset = [w for w in wants if got.get(w) != h.refs[w]]
            if notset:
                acc.violation("%s:refs:reported-ok-but-not-set" % site, "%s: %r" % (desc, notset), replay)
        cls = judge(acc, site, h, repo, before, xfer, want_ids, sent, include_tag, depth, replay, desc,
                    shallow_before=shallow_before)
        if pre:
            cls += ":after-depth%d-fetch" % pre[1]
        if server_errors:
            # the transfer succeeded from the client's point of view; a server thread that then hits
            # EOF/reset while waiting for more input is noise (and timing dependent): noted, not counted
            last = server_errors[-1].strip().splitlines()[-1]
            acc.note("server-side error after a successful transfer [%s]" % last.split(":")[0].split(".")[-1], "seen")
        acc.outcome(cls)
        if o.get("fsck"):
            _fsck(acc, site, rdir, replay, desc)
    finally:
        for r in opened:
            r.close()
        if repo is not None:
            repo.close()
        for d in tmp:
            rmtree(d)


def _skip_tcp_request(stream):
    """A git:// client stream starts with one pkt-line 'git-receive-pack /\0host=..\0' — drop it
    (a pipe to `git receive-pack` has no such line: commands start with 40 hex digits)."""
    if len(stream) >= 8 and stream[4:8] == b"git-":
        n = int(stream[:4], 16)
        return stream[n:]
    return stream


def _containment_only(acc, site, h, sent, want_ids, include_tag, replay, desc):
    advertised = ref.closure(h.edges, h.refs.values())
    known = [o for o in sent if o in h.raw]
    unadv = sorted(o for o in known if o not in advertised)
    if unadv:
        acc.violation("%s:containment:wire-unreachable-from-advertised-refs:%s"
                      % (site, "+".join(sorted({TYPE[h.raw[o][0]] for o in unadv}))),
                      "%s: transmitted %d object(s) no advertised ref reaches, e.g. %s" % (desc, len(unadv), unadv[0].decode()), replay)


# --------------------------------------------------------------------------- enumeration plan

NAMED4 = {
    "chain": ((), (0,), (1,), (2,)),
    "criss-cross": ((), (), (0, 1), (0, 1)),
    "two-chains": ((), (), (0,), (1,)),
    "diamond": ((), (0,), (0,), (1, 2)),
    "fork3": ((), (0,), (0,), (0,)),
    "merge-of-roots+child": ((), (), (0, 1), (2,)),
    "merge-with-foreign-root": ((), (0,), (), (1, 2)),
    "four-roots": ((), (), (), ()),
    "side-branch": ((), (0,), (1,), (1,)),
    "merge+sibling": ((), (), (0, 1), (0,)),
    "N": ((), (), (0,), (0, 1)),
    "redundant-parent": ((), (0,), (0, 1), (1, 2)),
}


# merges whose parents lie at different distances from the merge (the detour through the other
# parent is 1 or 2 commits long), on top of a chain of 2-3 commits, both parent orders, and a second
# skewed merge stacked on the first: a depth walk that does not take the SHORTEST path gets the
# boundary wrong here.  Parent tuples are in commit order (not necessarily ascending).
SKEWED = {
    "skew5-short-first": ((), (0,), (1,), (2,), (2, 3)),
    "skew5-long-first": ((), (0,), (1,), (2,), (3, 2)),
    "skew6-short-first": ((), (0,), (1,), (2,), (3,), (3, 4)),
    "skew6-long-first": ((), (0,), (1,), (2,), (3,), (4, 3)),
    "detour2-short-first": ((), (0,), (1,), (2,), (3,), (2, 4)),
    "detour2-long-first": ((), (0,), (1,), (2,), (3,), (4, 2)),
    "stacked-short-first": ((), (0,), (1,), (2,), (2, 3), (4,), (4, 5)),
    "stacked-long-first": ((), (0,), (1,), (2,), (3, 2), (4,), (5, 4)),
}


def skewed_histories(names=None):
    return [(d, tuple(i % 5 for i in range(len(d))), "none") for k, d in SKEWED.items() if names is None or k in names]


def O(**kw):
    """opts tuple in a fixed key order (part of the replay descriptor)."""
    return tuple(sorted(kw.items()))


def B(kind, what, rows, fams=("h",), rtag=False, maxwants=3, special=None, alien=False, only_empty=False):
    return dict(kind=kind, what=what, rows=tuple(rows), fams=tuple(fams), rtag=rtag, maxwants=maxwants, special=special,
                alien=alien, only_empty=only_empty)


def block_cases(h, b):
    """Every case of block ``b`` on history ``h`` as (fn, args) — the declared space, in order."""
    out = []
    base = (h.dag, h.trees, h.deco)
    if b["kind"] == "inproc":
        fn, head = "case_inproc", (b["what"],)
    else:
        fn, head = "case_proto", tuple(b["what"])
    if b["special"] == "clone":
        for row in b["rows"]:
            out.append((fn, base + ((), "h", 0, tuple(sorted(h.refs))) + head + (row,)))
        return out
    if b["special"] == "hostile":
        full = tuple(range(len(h.dag)))
        for D in ((), full):
            for row in b["rows"]:
                out.append((fn, base + (D, "h", 0, ()) + head + (row,)))
        return out
    W = want_sets(h, b["maxwants"])
    if b["special"] == "twostep":
        # an earlier depth-limited fetch of ONE ref, then the enumerated fetch: rows carry (d1, depth)
        for D, fam, rtag in receiver_states(h, b["fams"], False, False):
            if b["only_empty"] and D:
                continue
            for first in sorted(h.refs):
                for wants in W:
                    for row in b["rows"]:
                        r = dict(row)
                        r["pre"] = (first, r.pop("d1"))
                        out.append((fn, base + (D, fam, rtag, wants) + head + (O(**r),)))
        return out
    for D, fam, rtag in receiver_states(h, b["fams"], b["rtag"], b["alien"]):
        if b["only_empty"] and D:
            continue
        for wants in W:
            for row in b["rows"]:
                out.append((fn, base + (D, fam, rtag, wants) + head + (row,)))
    return out


def run_cases(acc, cases):
    g = globals()
    for fn, args in cases:
        g[fn](acc, *args)


def histories(dags, rules, decos):
    return [(tuple(d), tuple(r[:len(d)]), deco) for d in dags for r in rules for deco in decos]


def small_dags(nmax):
    return [d for n in range(1, nmax + 1) for d in E.dags(n, 2)]


def families(quick):
    """-> list of (label, histories, blocks).  Every (history, block) pair is evaluated completely."""
    R0, R1, R2 = TREE_RULES
    fsck = {} if quick else {"fsck": 1}
    fams = []
    P, L = O(storage="packed", **fsck), O(storage="loose", **fsck)

    def Pd(d):
        return O(storage="packed", depth=d, **fsck)

    def mem(depths, with_r, maxwants, **kw):
        return B("inproc", "mem-fetch", [O(depth=d) if d else () for d in depths], fams=("h", "r") if with_r else ("h",),
                 maxwants=maxwants, **kw)

    def clone(storages, depths):
        return B("inproc", "local-clone", [O(storage=s, **({"depth": d} if d else {}), **fsck)
                                           for s in storages for d in depths], special="clone")

    def twostep(mode, d2s, **kw):
        return B("inproc", mode, [O(d1=d1, **({"depth": d2} if d2 else {}), **kw) for d1 in (1, 2) for d2 in d2s],
                 maxwants=1, special="twostep")

    small = small_dags(3)
    n4 = list(E.dags(4, 2))
    named = list(NAMED4.values())
    if quick:
        fams.append(("in-process A: n<=3 all DAGs x tree rule 0 x 6 decorations",
                     histories(small, [R0], DECOS),
                     [mem((None, 1, 2), False, 3),
                      B("inproc", "mem-fetch", [()], fams=("r",)),
                      B("inproc", "local-fetch", [P, Pd(1)]),
                      B("inproc", "local-fetch", [L, Pd(2)], maxwants=1),
                      B("inproc", "local-fetch", [P], fams=("r",), maxwants=1),
                      B("inproc", "local-push", [P], rtag=True, maxwants=2),
                      B("inproc", "local-push", [L], maxwants=1),
                      clone(("packed", "loose"), (None, 1, 2))]))
        fams.append(("in-process B: n<=3 all DAGs x tree rules 1,2 x 6 decorations",
                     histories(small, [R1, R2], DECOS),
                     [mem((None,), False, 3),
                      B("inproc", "local-fetch", [P], maxwants=1),
                      B("inproc", "local-push", [P], maxwants=1),
                      clone(("packed",), (None,))]))
        fams.append(("in-process C: n=4 all 56 DAGs x tree rule 0 x {none,tc}",
                     histories(n4, [R0], ("none", "tc")),
                     [mem((None,), False, 2)]))
        fams.append(("in-process D: 12 named 4-commit shapes x tree rule 0 x {none,tc,t2}",
                     histories(named, [R0], ("none", "tc", "t2")),
                     [B("inproc", "local-fetch", [P], maxwants=2),
                      B("inproc", "local-push", [P], rtag=True, maxwants=1),
                      clone(("packed",), (None, 2))]))
        fams.append(("in-process S: n<=3 all DAGs x tree rule 0, no tags: receiver made shallow by an earlier fetch; "
                     "receiver with a commit of its own",
                     histories(small, [R0], ("none",)),
                     [twostep("mem-fetch", (None, 1, 2, 3)),
                      twostep("local-fetch", (None, 2, 3), storage="packed"),
                      mem((None,), False, 2, alien=True),
                      B("inproc", "local-fetch", [P], maxwants=1, alien=True),
                      B("inproc", "local-push", [P], maxwants=2, alien=True)]))
    else:
        allsmall = [(tuple(d), t, deco) for d in small_dags(2) for t in itertools.product(range(5), repeat=len(d)) for deco in DECOS]
        full = [mem((None, 1, 2), True, 3),
                B("inproc", "local-fetch", [P, L, Pd(1), Pd(2)]),
                B("inproc", "local-fetch", [P], fams=("r",), maxwants=1),
                B("inproc", "local-push", [P, L], rtag=True),
                clone(("packed", "loose"), (None, 1, 2))]
        fams.append(("in-process A: n<=2 all DAGs x ALL 5^n tree assignments x 6 decorations", allsmall, full))
        fams.append(("in-process B: n=3 all DAGs x 3 tree rules x 6 decorations",
                     histories(E.dags(3, 2), TREE_RULES, DECOS), full))
        fams.append(("in-process C: n=4 all 56 DAGs x 3 tree rules x 6 decorations",
                     histories(n4, TREE_RULES, DECOS), [mem((None, 1, 2), False, 3)]))
        fams.append(("in-process D: n=4 all 56 DAGs x tree rule 0 x 6 decorations",
                     histories(n4, [R0], DECOS),
                     [B("inproc", "local-fetch", [P, Pd(1)], maxwants=2),
                      B("inproc", "local-push", [P], rtag=True, maxwants=2),
                      clone(("packed", "loose"), (None, 1, 2))]))
        fams.append(("in-process E: n=5 all 616 DAGs x tree rule 0 x {none,tc}",
                     histories(E.dags(5, 2), [R0], ("none", "tc")),
                     [mem((None,), False, 2), mem((2,), False, 1)]))
        fams.append(("in-process S: n<=3 all DAGs + 12 named 4-commit shapes x tree rule 0 x {none,tc}: receiver made shallow "
                     "by an earlier fetch; receiver with a commit of its own",
                     histories(small + named, [R0], ("none", "tc")),
                     [twostep("mem-fetch", (None, 1, 2, 3)),
                      twostep("local-fetch", (None, 1, 2, 3), storage="packed", **fsck),
                      mem((None, 1), True, 3, alien=True),
                      B("inproc", "local-fetch", [P, L], maxwants=2, alien=True),
                      B("inproc", "local-push", [P, L], maxwants=3, alien=True)]))
    depths = (1, 2, 3, 4, 5, 6)
    fams.append(("in-process K: 8 skewed-merge histories (n = 5..7, parents at different distances, both parent orders, "
                 "stacked), no tags: depth 1..6",
                 skewed_histories(),
                 [mem(depths, False, 1 if quick else 2),
                  B("inproc", "local-fetch", [Pd(d) for d in depths], maxwants=1 if quick else 2, only_empty=quick),
                  clone(("packed",), depths)]))
    return fams


def proto_families(quick):
    """Protocol transports: each axis varies only where Appendix B of DESIGN.md says it can."""
    R0, R1, R2 = TREE_RULES
    fsck = {} if quick else {"fsck": 1}

    def o(**kw):
        kw.update(fsck)
        return O(**kw)

    def PB(transport, direction, rows, **kw):
        return B("proto", (transport, direction), rows, **kw)

    def twostep(tr, d2s, only_empty=False, **kw):
        return PB(tr, "fetch", [o(d1=d1, **({"depth": d2} if d2 else {}), **kw) for d1 in ((1,) if quick else (1, 2)) for d2 in d2s],
                  maxwants=1, special="twostep", only_empty=only_empty)

    tagdecos = DECOS[1:]
    PA = histories(small_dags(3), [R0], ("none",))
    PT = histories(small_dags(2), [R0], tagdecos)
    PC = histories(NAMED4.values(), [R0], ("none",))
    w_small, w_named = (2, 1) if quick else (3, 3)
    fams = []
    hostile = [o(hostile=k) for k in ("commit", "tag", "tree", "blob")]
    # ---- dulwich client <-> dulwich server (git:// and smart HTTP): ack mode, no-done, include-tag, depth
    for tr in ("tcp", "http"):
        tcp = tr == "tcp"
        full = tcp or not quick
        ack_rows = [o(ack="single"), o(ack="multi"), o(), o(nodone=1)] if not quick else [o(ack="single"), o(), o(nodone=1)]
        depth_rows = [o(depth=1), o(depth=2), o(depth=1, ack="single"), o(depth=2, nodone=1)] if not quick else [o(depth=1)]
        lazy = dict(net="lazy") if tcp else {}
        if tcp:  # the client polls for early answers only on stateful transports
            ack_rows += [o(net="lazy", ack="single"), o(net="lazy")] + ([] if quick else [o(net="lazy", ack="multi")])
            depth_rows += [o(net="lazy", depth=1), o(net="lazy", depth=2)]
        fams.append(("%s A: n<=3 all DAGs, no tags" % tr, PA, [
            PB(tr, "fetch", ack_rows + depth_rows + ([o(storage="loose", **lazy)] if full else []), maxwants=w_small),
            PB(tr, "push", [o(), o(ofs=0), o(sb=0)] if not quick else [o()], maxwants=w_small),
            PB(tr, "clone", [o(), o(depth=1), o(depth=2)], special="clone"),
            PB(tr, "fetch", hostile if tcp or not quick else hostile[:1], special="hostile"),
            PB(tr, "fetch", [o(**lazy)] + ([] if quick else [o()]), alien=True, maxwants=1 if quick else 2),
            PB(tr, "push", [o()], alien=True, maxwants=1 if quick else 2),
        ] + ([twostep(tr, (None, 2) if quick else (None, 1, 2, 3), **lazy)] if tcp or not quick else [])))
        if tcp or not quick:
            fams.append(("%s K: skewed-merge histories (%s), no tags: depth 1..6, empty peer" % (
                tr, "short-first parent order" if quick else "all 8"),
                skewed_histories([k for k in SKEWED if k.endswith("short-first")] if quick else None), [
                PB(tr, "fetch", [o(depth=d, **lazy) for d in (1, 2, 3, 4, 5, 6)], maxwants=1, only_empty=True),
                PB(tr, "clone", [o(depth=d) for d in (3, 4, 5)], special="clone"),
            ]))
        fams.append(("%s T: n<=2 all DAGs x 5 tag decorations" % tr, PT, [
            PB(tr, "fetch", [o(**lazy), o(itag=1, **lazy), o(itag=1, ack="single", **lazy), o(itag=1, nodone=1)] if full
               else [o(itag=1), o(itag=1, nodone=1)], maxwants=w_small),
            PB(tr, "fetch", [o(itag=1, depth=1, **lazy)], maxwants=1),
            PB(tr, "fetch", [o(itag=1, wrap=1, **lazy)], maxwants=w_small if tcp or not quick else 1),
            PB(tr, "push", [o()], rtag=True, maxwants=w_small),
            PB(tr, "clone", [o(), o(itag=1), o(itag=1, depth=1)], special="clone"),
            PB(tr, "fetch", hostile[:2], special="hostile"),
        ]))
        fams.append(("%s N: 12 named 4-commit shapes, no tags" % tr, PC, [
            PB(tr, "fetch", [o(ack="single", **lazy), o(**lazy), o(depth=2, **lazy)] + ([o()] if tcp else []) if full else [o()],
               maxwants=w_named),
            PB(tr, "push", [o()], maxwants=w_named),
            PB(tr, "clone", [o(), o(depth=2)], special="clone"),
        ]))
    # ---- dulwich client -> C git upload-pack / receive-pack: + thin-pack, ofs-delta, side-band-64k, v0/v2
    tr = "cgit-srv"
    fams.append(("cgit-srv A: n<=3 all DAGs, no tags", PA, [
        PB(tr, "fetch", [o(pv=2), o(pv=0), o(pv=0, net="lazy", ack="single"),
                         o(pv=0, net="lazy", ack="single", thin=0, ofs=0, sb=0), o(pv=2, depth=1), o(pv=0, net="lazy", depth=2)] +
           ([] if quick else [o(pv=0, net="lazy"), o(pv=0, net="lazy", ack="multi"), o(pv=0, ack="single"), o(pv=0, ack="multi"),
                              o(pv=2, net="lazy", depth=2), o(pv=0, net="lazy", depth=1)]),
           maxwants=w_small),
        PB(tr, "fetch", [o(pv=0, depth=1)], maxwants=1),
        PB(tr, "fetch", [o(pv=0, net="lazy", thin=0), o(pv=0, net="lazy", ofs=0), o(pv=0, net="lazy", sb=0), o(pv=2, thin=0)],
           maxwants=1 if quick else 3),
        PB(tr, "push", [o(), o(ofs=0), o(sb=0)], maxwants=1 if quick else 3),
        PB(tr, "clone", [o(pv=2), o(pv=0), o(pv=2, depth=1), o(pv=0, depth=2)], special="clone"),
        PB(tr, "fetch", [o(pv=2), o(pv=0, net="lazy")], alien=True, maxwants=1 if quick else 2),
        PB(tr, "push", [o()], alien=True, maxwants=1 if quick else 2),
    ] + ([twostep(tr, (None,), pv=2)] if quick else [twostep(tr, (None, 1, 2, 3), pv=2), twostep(tr, (None, 2), pv=0, net="lazy")])))
    fams.append(("cgit-srv T: n<=2 all DAGs x 5 tag decorations", PT, [
        PB(tr, "fetch", [o(pv=0, net="lazy", itag=1), o(pv=2, itag=1)] +
           ([] if quick else [o(pv=0, net="lazy"), o(pv=2), o(pv=0, net="lazy", itag=1, depth=1)]), maxwants=w_small),
        PB(tr, "push", [o()], rtag=True, maxwants=1 if quick else 3),
        PB(tr, "clone", [o(pv=2), o(pv=0, itag=1)], special="clone"),
    ]))
    fams.append(("cgit-srv N: 12 named 4-commit shapes, no tags", PC, [
        PB(tr, "fetch", [o(pv=2), o(pv=0, net="lazy", ack="multi")] if not quick else [o(pv=2)], maxwants=w_named),
        PB(tr, "push", [o()], maxwants=w_named),
        # a shallow clone (nothing else) doing a plain / deepening fetch from C git: what the client
        # claims to have below its boundary decides what git's thin pack leaves out
        twostep(tr, (None,) if quick else (None, 2), only_empty=quick, pv=2),
        twostep(tr, (None,), only_empty=quick, pv=0, net="lazy"),
    ]))
    # ---- C git client -> dulwich servers: server-side narrowing of multi_ack / no-done; --no-tags; depth
    for tr in ("cgit-tcp", "cgit-http"):
        tcp = tr == "cgit-tcp"
        rows = [o(), o(ack="single"), o(ack="multi")] if (tcp or not quick) else [o(), o(nodone=0)]
        if not tcp and not quick:
            rows.append(o(nodone=0))
        fams.append(("%s A: n<=3 all DAGs, no tags" % tr, PA, [
            PB(tr, "fetch", rows[:1], fams=("h", "r") if not quick else ("h",), maxwants=2 if quick else 3),
            PB(tr, "fetch", rows[1:] + [o(depth=1), o(depth=2)], maxwants=1 if quick else 3),
            PB(tr, "push", [o(), o(thin=0)] if not quick else [o()], maxwants=1 if quick else 3),
            PB(tr, "clone", [o(), o(depth=1)], special="clone"),
            PB(tr, "fetch", [o()], alien=True, maxwants=1 if quick else 2),
        ] + ([] if quick else [PB(tr, "push", [o()], alien=True, maxwants=1), twostep(tr, (None, 1, 2, 3))])))
        fams.append(("%s T: n<=2 all DAGs x 5 tag decorations" % tr, PT, [
            PB(tr, "fetch", [o()], rtag=True, maxwants=1 if quick else 3),
            PB(tr, "fetch", [o(tags=0), o(wrap=1)] + ([] if quick else [o(depth=1), o(ack="single")]), maxwants=1 if quick else 3),
            PB(tr, "push", [o()], rtag=True, maxwants=1 if quick else 3),
            PB(tr, "clone", [o(), o(tags=0)] + ([] if quick else [o(depth=1)]), special="clone"),
        ]))
        if not quick:
            fams.append(("%s N: 12 named 4-commit shapes, no tags" % tr, PC, [
                PB(tr, "fetch", [o()], maxwants=2),
                PB(tr, "push", [o()], maxwants=2),
            ]))
    return fams


# --------------------------------------------------------------------------- task plumbing


CHUNK = 160  # cases per task


def work(task):
    kind, spec, params = task
    acc = Acc()
    try:
        if kind == "cases":
            dag, trees, deco = spec
            h = history(dag, trees, deco)
            for b, lo, hi in params:
                run_cases(acc, block_cases(h, b)[lo:hi])
        else:
            raise AssertionError(kind)
    finally:
        close_servers()
        if _HMEMO[1] is not None:
            _drop(_HMEMO[1])
            _HMEMO[0] = _HMEMO[1] = None
    return acc


def _block_name(b):
    return b["what"] if isinstance(b["what"], str) else ":".join(b["what"])


def run(ctx):
    q = ctx.quick
    bounds = {}
    tasks = []
    declared = {}
    only = os.environ.get("C05_ONLY")
    for label, hist, blocks in families(q) + proto_families(q):
        if only and not __import__("re").search(only, label):
            continue
        per = {}
        for spec in hist:
            h = history(*spec)
            cur, size = [], 0
            for b in blocks:
                n = len(block_cases(h, b))
                per[_block_name(b)] = per.get(_block_name(b), 0) + n
                lo = 0
                while lo < n:
                    take = min(n - lo, CHUNK - size)
                    cur.append((b, lo, lo + take))
                    size += take
                    lo += take
                    if size >= CHUNK:
                        tasks.append(("cases", spec, cur))
                        cur, size = [], 0
            if cur:
                tasks.append(("cases", spec, cur))
        bounds[label] = {"histories": len(hist), "cases": per,
                         "blocks": ["%s refs-under=%s peer-variants=%s wants<=%d%s rows=%s" % (
                             _block_name(b), "+".join(b["fams"]), ("empty-peer-only" if b["only_empty"] else "plain") +
                             ("+tag" if b["rtag"] else "") + ("+own-commit" if b["alien"] else ""), b["maxwants"],
                             " [%s]" % b["special"] if b["special"] else "", [dict(r) for r in b["rows"]]) for b in blocks]}
        for k, v in per.items():
            declared[k] = declared.get(k, 0) + v
    _drop(_HMEMO[1]) if _HMEMO[1] is not None else None
    _HMEMO[0] = _HMEMO[1] = None
    if os.environ.get("C05_COUNT"):
        for k, v in bounds.items():
            print(k, v["histories"], v["cases"])
        print("tasks", len(tasks), "declared", declared, sum(declared.values()))
        return
    # expensive (protocol, subprocess) tasks first: better load balance; seeds permute on top
    cost = {"inproc": 1, "proto": 4}
    tasks.sort(key=lambda t: -max(cost[b["kind"]] * (3 if "cgit" in _block_name(b) else 1) for b, _lo, _hi in t[2]))
    pmap_acc(work, ctx.order(tasks), ctx.acc, jobs=ctx.jobs)
    n = ctx.acc.n
    total = n.get("inproc_cases", 0) + n.get("proto_cases", 0)
    if total != sum(declared.values()) and not only:
        raise HarnessError("evaluated %d cases, declared %d" % (total, sum(declared.values())))
    classes = ctx.acc.classes
    if not only:
        # vacuity guard: the interesting situations must really have occurred
        need = ["mem:fetch:partial:minimal", "local:fetch:partial:resends", "local:push:partial:minimal",
                "local:clone:empty:uncaptured:depth1:shallow", "tcp:fetch:partial:minimal", "tcp:fetch:partial:resends",
                "http:fetch:partial:minimal", "cgit-srv:fetch:partial:minimal", "cgit-tcp:fetch:partial:minimal",
                "cgit-http:push:partial:minimal", "tcp:fetch:failed:peer-closed-connection",
                "mem:fetch:partial:resends:depth2:shallow:after-depth1-fetch"]
        absent = [c for c in need if c not in classes]
        if absent:
            raise HarnessError("vacuity guard: outcome classes never observed: %r" % absent)
        for counter in ("thin_packs_on_wire", "delta_packs_on_wire", "packs_with_deltas"):
            if not n.get(counter):
                raise HarnessError("vacuity guard: %s == 0" % counter)
    ctx.level = "exploration"
    ctx.coverage.update(
        evaluations=total,
        distinct_nontrivial=len([c for c in classes if not c.endswith((":minimal", ":nothing-sent"))]),
        outcome_classes=dict(sorted(classes.items())),
        rule=(
            "E4 bounded-exhaustive: every history of each listed family (labelled commit DAG in topological numbering, "
            "<=2 parents x root-tree assignment from a 5-tree sharing alphabet x tag decoration) is built from real "
            "dulwich objects; for every block of the family EVERY (receiver downset x ref family x receiver variant x "
            "non-empty want subset up to the bound x option row) is transferred through the real code path "
            "(Repo.fetch between MemoryRepos, LocalGitClient fetch/clone/send_pack between disk repositories, dulwich "
            "TCP server + TCPGitClient, WSGI smart HTTP + Urllib3HttpGitClient, SubprocessGitClient against C git "
            "upload-pack/receive-pack (v0 and v2), C git fetch/clone/push against the dulwich git:// and http:// "
            "servers) and judged against the by-construction object graph: completeness of the transferred closure "
            "and of all receiver refs (cut at recorded shallow commits), byte identity, containment of the pack seen on "
            "the wire (independent pack parser) and of the objects that physically appeared in closure(wants) + "
            "auto-followed tags and in closure(advertised refs); depth-limited fetches against the reference depth "
            "frontier. evaluations = transfers judged; distinct_nontrivial = observed outcome classes other than the "
            "plain minimal / nothing-to-send successes (resends, shallow variants, failed/rejected transfers, hostile wants)."
        ),
        exhaustive=True,
        bounds=bounds,
    )
    ctx.assumptions += [
        "the object graph used as oracle is recorded while the history is built (engines/refmodels/closure.py); gitlinks "
        "are not followed; nothing in the oracle parses objects or asks a dulwich store",
        "a transfer that raises / is rejected ('ng', non-zero git exit) is an outcome class, not a violation: the statement "
        "speaks about successful transfers (failed classes are listed in outcome_classes)",
        "re-sending objects the peer already has is allowed; containment is judged against closure(wants actually sent on "
        "the wire) — C git asks for auto-followed tags in a second request",
        "timing: the only timing-dependent decision in the transports under test is the dulwich fetch client's can_read() "
        "poll while sending haves; it is replaced by two deterministic extremes that are both enumerated (net=eager: "
        "answered when the server is quiescent; net=lazy: never sees early data). C git clients read synchronously.",
        "servers bind 127.0.0.1 port 0 and are shut down at the end of every task; TCP_NODELAY is set on accepted sockets "
        "(latency only)",
        "C git 2.39.5; SHA-1 repositories; commit timestamps increase along the numbering (clock skew is C13's subject)",
        "quick tier: tree rules 1,2 and 4-commit histories run through reduced blocks (see bounds); thorough widens them",
    ]


def replay(ctx, obj):
    try:
        return replay_generic(sys.modules[__name__], ctx, obj)
    finally:
        close_servers()
        if _HMEMO[1] is not None:
            _drop(_HMEMO[1])
