"""C02 — pack and pack-index round trip, internally consistent, interoperable with C git.

Bounded-exhaustive enumeration (engine E4).  Reference model: engines/refmodels/packfile.py, an
independent pack / idx parser and writer written from gitformat-pack(5).  Families:

  W    dulwich writes a pack and its index; the raw bytes are decoded by the reference parser
       (mapping name -> (type, bytes) equal to the input; trailer, per-entry CRC32, fan-out, offsets,
       64-bit table); dulwich reads them back (Pack[..] in every access order, get_raw, iterobjects,
       PackData.sorted_entries, index.iterentries, Pack.check, containment); C git judges every distinct
       (pack, idx) pair: `index-pack --strict`, `verify-pack -v` against *dulwich's* idx, `cat-file --batch`.
         W.seq    every ordered selection of <=k objects of a pool x {write_pack, write_pack_objects +
                  write_pack_index v1/v2/v3 + PackData.create_index, deltify_pack_objects(window) +
                  write_pack_data in the selected order (OFS deltas after, REF deltas before their base),
                  DiskObjectStore.add_objects(level, index version)} x compression level x SHA-1/SHA-256
         W.ofs    engineered distances between an OFS delta and its base around 127/128 and 16511/16512
         W.slice  deflate streams that end exactly at / around the 64 KiB read-slice boundary
         W.reuse  a store already packed with deltas (by C git and by dulwich) -> write_pack_from_container
                  for every ordered selection x reuse_deltas x deltify x window (+ thin: other_haves)
  I    index only: synthetic entries with names whose first byte is 00/01/7f/fe/ff and offsets around
       2^31 / 2^32 / 2^40; dulwich writer -> reference parser + `git show-index`; reference writer ->
       dulwich reader (lookups, misses, prefixes, iteration).
  R    packs built by the reference writer: every delta forest on <=k versions of a blob x every pack
       order x OFS/REF choice (delta-of-delta through both kinds, REF to a later entry); validated by
       C git, read by dulwich.
  G    packs written by `git pack-objects` (every subset of a pool x --depth x --delta-base-offset x
       --index-version 1 / 2 / 2 with forced 64-bit entries; 64 successive edits of one blob with depth
       1/10/50; --thin completed by DiskObjectStore.add_thin_pack) -> dulwich reads (random access in
       several orders incl. every single first access, iteration, check, re-index).

Violation keys: <phase>:<site>:<predicate>[@<input class>] — phase write/read/git, site the dulwich
API (or on-disk structure) whose output is wrong, predicate what is wrong with it, input class a
fixed predicate of the object/pack concerned (ofs-delta, ref-delta, sha256, ...), never the input.
"""

from __future__ import annotations

import hashlib
import itertools
import os
import traceback
import warnings

from engines.common import Acc, HarnessError, fresh_dir, git, pmap_acc, replay_generic, rmtree, rp, split
from engines.refmodels import packfile as R

warnings.simplefilter("ignore", ResourceWarning)

LEVELS = (-1, 0, 1, 9)
WINDOWS = (None, 1, 10)


# --------------------------------------------------------------------------- dulwich access


def _P():
    from dulwich import pack as P

    return P


def _fmt(hash_name):
    from dulwich.object_format import SHA1, SHA256

    return SHA1 if hash_name == "sha1" else SHA256


def _shafile(type_num, data, hash_name):
    from dulwich.objects import ShaFile

    return ShaFile.from_raw_string(type_num, data, object_format=_fmt(hash_name))


def _exc_site(e):
    site = None
    for fr in traceback.extract_tb(e.__traceback__):
        if "/dulwich/" in fr.filename:
            site = fr.name
    return site or "?"


def _exc_name(e):
    t = type(e)
    return t.__name__ if t.__module__ in ("builtins", "dulwich.errors", "dulwich.pack") else "%s.%s" % (t.__module__, t.__name__)


def _short(b, n=24):
    b = bytes(b)
    return repr(b) if len(b) <= n else "%r..(%d bytes)" % (b[:10], len(b))


# --------------------------------------------------------------------------- object pools

_POOLS = {}


def _stream(n, salt=b"S"):
    """Compressible deterministic text."""
    out = bytearray()
    i = 0
    while len(out) < n:
        out += b"%s line %06d %s\n" % (salt, i, hashlib.sha1(salt + b"%d" % (i // 7)).hexdigest()[:12].encode())
        i += 1
    return bytes(out[:n])


def _noise(n, salt=b"X"):
    """Incompressible deterministic bytes."""
    out = bytearray()
    i = 0
    while len(out) < n:
        out += hashlib.sha256(salt + b"%d" % i).digest()
        i += 1
    return bytes(out[:n])


def _tree(entries, hash_name):
    """entries: [(mode, name, type, data)] -> canonical tree bytes (names sorted by the caller)."""
    out = bytearray()
    for mode, name, t, d in entries:
        out += b"%o %s\x00" % (mode, name) + R.object_name(t, d, hash_name)
    return bytes(out)


def _commit(tree, parents, msg, hash_name):
    out = b"tree " + R.object_name(2, tree, hash_name).hex().encode() + b"\n"
    for p in parents:
        out += b"parent " + R.object_name(1, p, hash_name).hex().encode() + b"\n"
    out += b"author A U Thor <a@example.com> 1000000000 +0000\ncommitter C O Mitter <c@example.com> 1000000001 +0100\n\n" + msg
    return out


def pool(name, hash_name):
    """-> list of (type_num, bytes).  Deterministic; trees/commits/tags refer to pool members by the
    names of the selected hash."""
    key = (name, hash_name)
    if key in _POOLS:
        return _POOLS[key]
    if name == "A":  # every type, empty blob, 15/16-byte sizes, duplicate content across types, delta pairs
        b0 = b""
        b15 = b"fifteen bytes.\n"
        b16 = b"fifteen bytes..\n"
        b16x = b"0123456789abcdef"
        t1 = _tree([(0o100644, b"a", 3, b15), (0o100755, b"b", 3, b16)], hash_name)
        t2 = _tree([(0o100644, b"a", 3, b15), (0o100755, b"b", 3, b16), (0o100644, b"c", 3, b0)], hash_name)
        c1 = _commit(t1, [], b"first\n", hash_name)
        c2 = _commit(t2, [c1], b"second\n", hash_name)
        tag = (b"object " + R.object_name(1, c1, hash_name).hex().encode() + b"\ntype commit\ntag v1\n"
               b"tagger T Agger <t@example.com> 1000000002 -0130\n\nrelease\n")
        objs = [(3, b0), (3, b15), (3, b16), (3, b16x), (2, t1), (2, t2), (1, c1), (1, c2), (4, tag), (3, c1)]
    elif name == "B":  # size-varint boundaries of the entry header: 4 bits, 4+7 bits, 4+7+7 bits
        s = _stream(262145)
        objs = [(3, s[:n]) for n in (15, 16, 2047, 2048, 262143, 262144, 262145)]
    elif name == "C":  # 64 KiB copy-op limit: common runs of 65535/65536/65537/65545/131073 bytes.
        # Prefixes of one stream: dulwich's Rust encoder is a byte-level Myers diff (O((N+M)*D)); a
        # pair of 64 KiB objects that differ in more than a prefix/suffix costs minutes of CPU.
        y = _stream(131080, b"C")
        objs = [(3, y[:n]) for n in (65535, 65536, 65537, 65545, 131073, 131080)]
    elif name == "V":  # 64 successive edits of one blob (equal sizes: one 64-byte block replaced per step)
        nb = 100
        blk = lambda i, j: (hashlib.sha1(b"%d/%d" % (i, j)).hexdigest() * 2)[:63].encode() + b"\n"
        blocks = [blk(0, j) for j in range(nb)]
        objs = []
        for i in range(64):
            blocks[i % nb] = blk(i + 1, i % nb)
            objs.append((3, b"".join(blocks)))
    elif name == "E":  # 6 small versions of one blob (reference-built delta forests, reuse family)
        base = _stream(600, b"E")
        objs = [(3, base[:100 * k] + b"<edit %d>" % k + base[100 * k:]) for k in range(6)]
    elif name == "T":  # pool E as a linear history: blob k, tree k = {f: blob k}, commit k (parent k-1)
        blobs = [d for _, d in pool("E", hash_name)]
        trees = [_tree([(0o100644, b"f", 3, b)], hash_name) for b in blobs]
        commits = []
        for k, t in enumerate(trees):
            commits.append(_commit(t, commits[-1:], b"version %d\n" % k, hash_name))
        objs = [(3, b) for b in blobs] + [(2, t) for t in trees] + [(1, c) for c in commits]
    else:
        raise HarnessError("unknown pool " + name)
    names = [R.object_name(t, d, hash_name) for t, d in objs]
    if len(set(names)) != len(names):
        raise HarnessError("pool %s has duplicate objects" % name)
    _POOLS[key] = objs
    return objs


ALL_POOLS = ("A", "B", "C", "V", "E", "T")


def _names(objs, hash_name):
    return [R.object_name(t, d, hash_name) for t, d in objs]


# --------------------------------------------------------------------------- per-process C git state

_GIT = {}


def _gitstate(hash_name):
    """Per worker process and hash: repo 'full' holding every pool object (so that --strict's link
    check and pack-objects find them; C git itself hashed and fsck'ed them), repo 'empty' for
    cat-file on one installed pack at a time."""
    key = (os.getpid(), hash_name)
    st = _GIT.get(key)
    if st is not None:
        return st
    full = fresh_dir("gfull")
    empty = fresh_dir("gempty")
    fmtarg = ["--object-format=" + hash_name]
    git(["init", "-q", "--bare"] + fmtarg + [full])
    git(["init", "-q", "--bare"] + fmtarg + [empty])
    w = R.PackWriter(hash_name, level=1)
    seen = set()
    want = {}
    for pn in ALL_POOLS:
        for t, d in pool(pn, hash_name):
            n = R.object_name(t, d, hash_name)
            if n not in seen:
                seen.add(n)
                w.add_full(t, d)
                want[n.hex()] = (t, len(d))
    p = git(["unpack-objects", "-q", "--strict"], cwd=full, input=w.finish(), check=False)
    if p.returncode != 0:
        raise HarnessError("C git refuses the object pools (%s): %s" % (hash_name, p.stderr[-500:]))
    out = git(["cat-file", "--batch-check", "--batch-all-objects"], cwd=full).stdout
    got = {}
    for line in out.splitlines():
        h, t, s = line.split()
        got[h.decode()] = (R.TYPE_NUMS[t], int(s))
    if got != want:
        raise HarnessError("ORACLE-DISAGREEMENT: C git names the pool objects differently from the reference model")
    st = {"full": full, "empty": empty, "n": 0}
    _GIT[key] = st
    return st


def _claim(shared, token):
    """True for exactly one caller per token over all workers of a run (O_EXCL on tmpfs).
    shared=None (replay): always True."""
    if shared is None:
        return True
    try:
        fd = os.open(os.path.join(shared, token), os.O_CREAT | os.O_EXCL | os.O_WRONLY, 0o600)
    except FileExistsError:
        return False
    os.close(fd)
    return True


# --------------------------------------------------------------------------- oracle: the pack bytes


_PACK_SITE = {
    "pack-trailer-mismatch": "PackChunkGenerator:trailer",
    "pack-bad-signature": "pack_header_chunks",
    "pack-bad-version": "pack_header_chunks",
    "pack-too-short": "pack_header_chunks",
    "pack-fewer-entries-than-declared": "pack_header_chunks:count",
    "pack-garbage-after-last-entry": "pack_header_chunks:count",
    "entry-header-truncated": "pack_object_header:size-varint",
    "entry-size-mismatch": "pack_object_header:size-varint",
    "entry-bad-type": "pack_object_header:type",
    "entry-ofs-truncated": "pack_object_header:ofs-varint",
    "entry-ofs-out-of-range": "pack_object_header:ofs-varint",
    "ofs-base-not-an-entry-start": "PackChunkGenerator:ofs-distance",
    "entry-ref-truncated": "pack_object_header:ref-base",
    "delta-base-unresolvable": "PackChunkGenerator:ref-base",
    "zlib-truncated": "pack_object_chunks:deflate",
    "zlib-error": "pack_object_chunks:deflate",
}


def _hcls(hash_name):
    return "" if hash_name == "sha1" else "@sha256"


def _entry_class(r, hash_name):
    c = {"full": "full", "ofs": "ofs-delta", "ref": "ref-delta", "external": "external"}[r.kind]
    if r.depth > 1:
        c += "-of-delta"
    return "@" + c + ("/sha256" if hash_name != "sha1" else "")


def oracle_pack(acc, fam, data, exp, hash_name, rpd, writer="dulwich", external=None, ordered=True):
    """Reference-parse `data`; the resolved mapping must equal exp (list of (type, bytes) — in pack
    order when ordered).  -> (pinfo, resolved) or None when the pack is unusable."""
    try:
        pinfo = R.parse_pack(data, hash_name)
        res = R.resolve_pack(pinfo, external)
    except R.FormatError as e:
        if writer != "dulwich":
            raise HarnessError("reference parser rejects a pack written by %s: %s" % (writer, e))
        site = _PACK_SITE.get(e.code, "create_delta" if e.code.startswith("delta-") else "pack")
        acc.violation("write:%s:%s%s" % (site, e.code, _hcls(hash_name)), "%s: pack of %d bytes: %s" % (fam, len(data), e), rpd)
        return None
    got = [(r.type, r.data) for r in res]
    bad = None
    if ordered:
        if got != list(exp):
            bad = "objects-or-order-differ-from-input"
    if sorted(got) != sorted(exp):
        gs, es = set(got), set(exp)
        if len(got) != len(exp) and gs == es:
            bad = "object-duplicated-or-dropped"
        elif es - gs and not gs - es:
            bad = "object-missing"
        elif {d for _, d in got} == {d for _, d in exp}:
            bad = "type-wrong"
        else:
            bad = "content-wrong"
    if bad:
        if writer != "dulwich":
            raise HarnessError("pack written by %s does not hold the requested objects (%s)" % (writer, bad))
        acc.violation("write:pack:%s%s" % (bad, _hcls(hash_name)),
                      "%s: wrote %s, pack holds %s" % (fam, [(t, _short(d)) for t, d in exp], [(t, _short(d)) for t, d in got]), rpd)
        return None
    # structural classes (vacuity guard)
    kinds = "+".join(sorted({r.kind for r in res})) or "empty"
    acc.outcome("shape:%s:kinds=%s" % (fam, kinds))
    if res:
        acc.outcome("shape:%s:max-depth=%d" % (fam, min(max(r.depth for r in res), 50)))
    for e in pinfo.entries:
        acc.outcome("shape:entry:type=%d:header-bytes=%d" % (e.type, e.header_len))
        if not e.canonical_header:
            acc.outcome("shape:entry:non-canonical-size-header")
        if e.type == R.OFS_DELTA:
            acc.outcome("shape:entry:ofs-bytes=%d" % e.ofs_len)
            d = e.offset - e.base_offset
            if d in (127, 128, 16511, 16512, 2113663, 2113664):
                acc.outcome("shape:entry:ofs-distance=%d" % d)
        if e.type in (R.OFS_DELTA, R.REF_DELTA):
            for kind, off, sz in R.delta_ops(e.payload):
                if kind == "copy" and sz >= 0xFFFF:
                    acc.outcome("shape:delta:copy-size=%#x" % sz)
        if e.zlen % 65536 in (0, 1, 65535):
            acc.outcome("shape:entry:deflate-length-mod-64KiB=%d" % (e.zlen % 65536))
    return pinfo, res


# --------------------------------------------------------------------------- oracle: the idx bytes


def oracle_idx(acc, fam, pinfo, res, idxdata, version, hash_name, rpd, site, writer="dulwich"):
    """Reference-parse the index and check it against the pack.  -> IdxInfo or None."""
    try:
        iinfo = R.parse_idx(idxdata, hash_name)
        problems = R.check_pair(pinfo, res, iinfo)
        if iinfo.version != version:
            problems.insert(0, "version-is-%d" % iinfo.version)
    except R.FormatError as e:
        iinfo = None
        problems = [e.code]
    if problems and writer != "dulwich":
        raise HarnessError("reference parser finds fault with an index written by %s: %s" % (writer, problems))
    for pr in problems:
        acc.violation("write:%s:idx-v%d:%s%s" % (site, version, pr, _hcls(hash_name)),
                      "%s: index of %d bytes for a pack of %d objects: %s" % (fam, len(idxdata), pinfo.count, pr), rpd)
    if problems:
        return None
    if iinfo.large_table:
        acc.outcome("shape:idx-v%d:64-bit-table" % version)
    return iinfo


# --------------------------------------------------------------------------- oracle: dulwich reads


def _perms(ids, cap_all=4):
    """Access orders: every permutation for <=cap_all objects, else a fixed family."""
    if len(ids) <= cap_all:
        return list(itertools.permutations(ids))
    return [tuple(ids), tuple(reversed(ids))]


def oracle_read(acc, fam, basename, res, ientries, version, hash_name, rpd, orders=None, resolve_ext_ref=None,
                singles=False, check=True):
    """Everything dulwich can tell about <basename>.pack/.idx must equal the reference reading.
    res: reference Resolved list (pack order); ientries: reference idx entries (name, offset, crc)."""
    P = _P()
    fmt = _fmt(hash_name)
    want = {r.name: r for r in res}
    names = sorted(want)
    hexes = [n.hex().encode() for n in names]
    hc = _hcls(hash_name)
    vio = lambda key, msg: acc.violation(key, "%s idx-v%d: %s" % (fam, version, msg), rpd)
    kw = {"resolve_ext_ref": resolve_ext_ref} if resolve_ext_ref else {}

    def cls(name):
        return _entry_class(want[name], hash_name)

    # -- random access orders, each on a fresh Pack (resolving a delta fills Pack.data._offset_cache,
    #    which later accesses are served from): every permutation when the pack holds deltas and
    #    orders == "all"; sorted + reversed otherwise (no delta => the cache is never written)
    if orders == "all" and any(r.kind != "full" for r in res):
        orders = _perms(names)
    elif orders is None or orders == "all":
        orders = [tuple(names), tuple(reversed(names))] if len(names) > 1 else [tuple(names)]
    elif orders == "few":  # a further index over a pack already read in all orders: Pack[...] below
        orders = []
    if singles:
        orders = list(orders) + [(n,) for n in names]
    for order in orders:
        p = P.Pack(basename, object_format=fmt, **kw)
        try:
            for rnd in (0, 1):  # second round is served from Pack.data._offset_cache where filled
                for n in order:
                    r = want[n]
                    try:
                        got = p.get_raw(n.hex().encode() if rnd == 0 else n)
                    except Exception as e:
                        vio("read:Pack.get_raw:raises-%s%s" % (_exc_name(e), cls(n)),
                            "object %s (%s, depth %d) in order %s round %d: %s in %s: %s"
                            % (n.hex()[:12], r.kind, r.depth, [x.hex()[:6] for x in order], rnd, _exc_name(e), _exc_site(e), str(e)[:120]))
                        continue
                    if got != (r.type, r.data):
                        what = "type-wrong" if got[1] == r.data else ("another-objects-content" if any(got[1] == o.data for o in res) else "content-wrong")
                        vio("read:Pack.get_raw:%s%s%s" % (what, ":cached-round" if rnd else "", cls(n)),
                            "object %s (%s, depth %d) in order %s round %d: got type %r %s, want type %d %s"
                            % (n.hex()[:12], r.kind, r.depth, [x.hex()[:6] for x in order], rnd, got[0], _short(got[1]), r.type, _short(r.data)))
            acc.count("read_access_orders")
        finally:
            p.close()

    p = P.Pack(basename, object_format=fmt, **kw)
    try:
        # -- container protocol
        try:
            n_ = len(p)
            ids = list(p)
            if n_ != len(names) or ids != hexes:
                vio("read:Pack.__iter__:ids-differ%s" % hc, "len=%d ids=%r want %r" % (n_, [i[:8] for i in ids], [h[:8] for h in hexes]))
        except Exception as e:
            vio("read:Pack.__iter__:raises-%s%s" % (_exc_name(e), hc), "%s: %s" % (_exc_site(e), str(e)[:120]))
        for n, h in zip(names, hexes):
            r = want[n]
            try:
                if h not in p or n not in p:
                    vio("read:Pack.__contains__:present-object-not-found%s" % hc, h.decode())
                o = p[h]
                if (o.type_num, o.as_raw_string()) != (r.type, r.data):
                    vio("read:Pack.__getitem__:object-differs%s" % cls(n), "%s: got (%d, %s)" % (h.decode()[:12], o.type_num, _short(o.as_raw_string())))
                elif o.get_id(fmt) != h:
                    vio("read:Pack.__getitem__:id-differs%s" % cls(n), "%s: got %r" % (h.decode()[:12], o.get_id(fmt)))
            except Exception as e:
                vio("read:Pack.__getitem__:raises-%s%s" % (_exc_name(e), cls(n)), "%s: %s in %s: %s" % (h.decode()[:12], _exc_name(e), _exc_site(e), str(e)[:120]))
        for miss in _misses(names, hash_name):
            try:
                if miss in p or miss.hex().encode() in p:
                    vio("read:Pack.__contains__:absent-object-found%s" % hc, miss.hex())
                try:
                    p.get_raw(miss)
                    vio("read:Pack.get_raw:absent-object-returned%s" % hc, miss.hex())
                except KeyError:
                    pass
            except Exception as e:
                vio("read:Pack.__contains__:raises-%s%s" % (_exc_name(e), hc), "absent %s: %s: %s" % (miss.hex()[:12], _exc_site(e), str(e)[:120]))
        # -- sequential iteration
        try:
            got = sorted((o.type_num, o.as_raw_string()) for o in p.iterobjects())
            if got != sorted((r.type, r.data) for r in res):
                vio("read:Pack.iterobjects:objects-differ%s" % hc, "got %s" % [(t, _short(d)) for t, d in got])
        except Exception as e:
            vio("read:Pack.iterobjects:raises-%s%s" % (_exc_name(e), hc), "%s in %s: %s" % (_exc_name(e), _exc_site(e), str(e)[:120]))
        # -- entries from the data and from the index
        ref_sorted = sorted(ientries)
        try:
            got = list(p.data.sorted_entries(**kw))
            if [tuple(g) for g in got] != [(n, o, c) for n, o, c in ref_sorted]:
                vio("read:PackData.sorted_entries:%s%s" % (_entries_diff(got, ref_sorted), hc), "got %s" % _fmt_entries(got))
        except Exception as e:
            vio("read:PackData.sorted_entries:raises-%s%s" % (_exc_name(e), hc), "%s in %s: %s" % (_exc_name(e), _exc_site(e), str(e)[:120]))
        try:
            got = list(p.index.iterentries())
            wantidx = [(n, o, (c if version >= 2 else None)) for n, o, c in ref_sorted]
            if [tuple(g) for g in got] != wantidx:
                vio("read:PackIndex%d.iterentries:%s%s" % (version, _entries_diff(got, wantidx), hc), "got %s" % _fmt_entries(got))
            for n, o, _ in ref_sorted:
                if p.index.object_offset(n) != o or p.index.object_offset(n.hex().encode()) != o:
                    vio("read:PackIndex%d.object_offset:offset-wrong%s" % (version, hc), "%s -> %r, want %d" % (n.hex()[:12], p.index.object_offset(n), o))
            if p.index.get_pack_checksum() != p.data.get_stored_checksum():
                vio("read:PackIndex%d.get_pack_checksum:differs-from-pack-trailer%s" % (version, hc), "")
        except Exception as e:
            vio("read:PackIndex%d:raises-%s%s" % (version, _exc_name(e), hc), "%s in %s: %s" % (_exc_name(e), _exc_site(e), str(e)[:120]))
        # -- the in-memory index built from the data (first index of a pack only)
        if orders:
            try:
                mi = P.MemoryPackIndex.for_pack(p.data)
                bad = len(mi) != len(ref_sorted) or mi.get_pack_checksum() != p.data.get_stored_checksum()
                for n, o, _ in ref_sorted:
                    if mi.object_offset(n) != o or mi.object_offset(n.hex().encode()) != o or mi.object_sha1(o) != n:
                        bad = True
                if bad or sorted(tuple(e) for e in mi.iterentries()) != ref_sorted:
                    vio("read:MemoryPackIndex.for_pack:entries-differ%s" % hc, "%r" % _fmt_entries(list(mi.iterentries())))
            except Exception as e:
                vio("read:MemoryPackIndex.for_pack:raises-%s%s" % (_exc_name(e), hc), "%s in %s: %s" % (_exc_name(e), _exc_site(e), str(e)[:120]))
        # -- integrity check
        if check:
            try:
                p.check()
            except Exception as e:
                vio("read:Pack.check:raises-%s%s" % (_exc_name(e), hc), "%s in %s: %s" % (_exc_name(e), _exc_site(e), str(e)[:120]))
        acc.count("read_pairs")
    finally:
        p.close()


def _ref_entries(pinfo, res):
    """(name, offset, crc32) of every entry as the reference parser reads the pack."""
    return sorted((r.name, e.offset, e.crc32) for r, e in zip(res, pinfo.entries))


def _misses(names, hash_name):
    hl = R.hash_len(hash_name)
    out = [b"\x00" * hl, b"\xff" * hl]
    for n in names[:2]:
        out.append(n[:-1] + bytes([n[-1] ^ 1]))
        out.append(bytes([n[0]]) + b"\x00" * (hl - 1))
        out.append(bytes([n[0]]) + b"\xff" * (hl - 1))
    return [m for m in out if m not in set(names)]


def _entries_diff(got, want):
    got = [tuple(g) for g in got]
    if [g[0] for g in got] != [w[0] for w in want]:
        return "names-differ"
    if [g[1] for g in got] != [w[1] for w in want]:
        return "offset-wrong"
    return "crc32-wrong"


def _fmt_entries(es):
    return [(bytes(e[0]).hex()[:10], e[1], e[2]) for e in es][:6]


# --------------------------------------------------------------------------- oracle: C git


def oracle_git_pack(acc, fam, packpath, pinfo, res, hash_name, rpd, shared):
    """`git index-pack --strict` on a distinct pack: accepted, and the idx git derives lists the
    same (name, offset, crc) as the reference parser (else ORACLE-DISAGREEMENT)."""
    if not _claim(shared, "P-" + hash_name + "-" + pinfo.trailer.hex()):
        return
    st = _gitstate(hash_name)
    out = os.path.join(os.path.dirname(packpath), "git-%d.idx" % os.getpid())
    p = git(["index-pack", "--strict", "-o", out, packpath], cwd=st["full"], check=False)
    acc.count("git_index_pack")
    if p.returncode != 0:
        acc.outcome("git:index-pack--strict:rejected")
        acc.violation("git:index-pack--strict:rejects-dulwich-pack%s" % _hcls(hash_name),
                      "%s: pack %s: %s" % (fam, pinfo.trailer.hex()[:12], p.stderr.decode("latin1").strip()[-200:]), rpd)
        return
    with open(out, "rb") as f:
        gi = R.parse_idx(f.read(), hash_name)
    os.unlink(out)
    for ext in (".rev",):
        if os.path.exists(out[:-4] + ext):
            os.unlink(out[:-4] + ext)
    mine = sorted((r.name, e.offset, e.crc32) for r, e in zip(res, pinfo.entries))
    if gi.problems or sorted(gi.entries) != mine or gi.pack_checksum != pinfo.trailer:
        raise HarnessError("ORACLE-DISAGREEMENT: git index-pack and the reference parser read pack %s differently"
                           % pinfo.trailer.hex())
    acc.outcome("git:index-pack--strict:accepted")


def oracle_git_pair(acc, fam, basename, pinfo, res, iinfo, hash_name, rpd, shared):
    """`git verify-pack -v` against dulwich's idx and `git cat-file --batch` through it."""
    if iinfo.version > 2:
        return  # not a git format
    if not _claim(shared, "I-" + hash_name + "-" + pinfo.trailer.hex() + "-" + iinfo.idx_checksum.hex()):
        return
    st = _gitstate(hash_name)
    hc = _hcls(hash_name)
    p = git(["verify-pack", "-v", basename + ".idx"], cwd=st["full"], check=False)
    acc.count("git_verify_pack")
    if p.returncode != 0:
        acc.outcome("git:verify-pack:rejected")
        acc.violation("git:verify-pack:rejects-dulwich-idx-v%d%s" % (iinfo.version, hc),
                      "%s: %s" % (fam, (p.stderr + p.stdout[-200:]).decode("latin1").strip()[-300:]), rpd)
        return
    listing = sorted((h, t, s, sp, o) for h, t, s, sp, o, _, _ in R.parse_verify_pack(p.stdout))
    mine = sorted((r.name.hex(), R.TYPE_NAMES[r.type], e.size, e.end - e.offset, e.offset) for r, e in zip(res, pinfo.entries))
    if listing != mine:
        raise HarnessError("ORACLE-DISAGREEMENT: git verify-pack lists %r, reference parser %r" % (listing[:3], mine[:3]))
    acc.outcome("git:verify-pack:accepted-idx-v%d" % iinfo.version)
    # cat-file through this pack alone
    pd = os.path.join(st["empty"], "objects", "pack")
    st["n"] += 1
    tgt = os.path.join(pd, "pack-%040d" % st["n"])
    os.link(basename + ".pack", tgt + ".pack")
    os.link(basename + ".idx", tgt + ".idx")
    try:
        names = sorted(r.name for r in res)
        inp = b"".join(n.hex().encode() + b"\n" for n in names)
        p = git(["cat-file", "--batch"], cwd=st["empty"], input=inp, check=False)
        acc.count("git_cat_file")
        want = b"".join(b"%s %s %d\n%s\n" % (r.name.hex().encode(), R.TYPE_NAMES[r.type], len(r.data), r.data)
                        for r in sorted(res, key=lambda r: r.name))
        if p.returncode != 0 or p.stdout != want:
            acc.violation("git:cat-file:content-differs-through-dulwich-idx-v%d%s" % (iinfo.version, hc),
                          "%s: rc=%d %s" % (fam, p.returncode, p.stderr.decode("latin1")[-200:]), rpd)
        else:
            acc.outcome("git:cat-file:identical")
    finally:
        os.unlink(tgt + ".pack")
        os.unlink(tgt + ".idx")


# --------------------------------------------------------------------------- W.seq


def _objs(pool_name, idxs, hash_name):
    pl = pool(pool_name, hash_name)
    return [pl[i] for i in idxs]


def _write_idx_variants(acc, fam, d, packpath, entries, checksum, hash_name, rpd, api):
    """idx v1/v2/v3 from the entries the writer returned (write_pack_index) and from re-indexing the
    pack (PackData.create_index).  -> [(label, version, basename)] of usable pairs (hard links)."""
    P = _P()
    fmt = _fmt(hash_name)
    out = []
    seen = {}
    for version in (1, 2, 3):
        for how in ("entries", "reindex"):
            base = os.path.join(d, "%s%d" % (how[0], version))
            try:
                if how == "entries":
                    if entries is None:
                        continue
                    el = sorted((k, v[0], v[1]) for k, v in entries.items())
                    with open(base + ".idx", "wb") as f:
                        P.write_pack_index(f, el, checksum, version=version)
                    site = "write_pack_index"
                else:
                    pd = P.PackData(packpath, object_format=fmt)
                    try:
                        pd.create_index(base + ".idx", version=version, **({"hash_format": 2} if version == 3 and hash_name != "sha1" else {}))
                    finally:
                        pd.close()
                    site = "PackData.create_index"
            except Exception as e:
                legal = _idx_legal(version, hash_name)
                acc.outcome("W:idx-v%d:%s:%s:refused-%s%s" % (version, hash_name, how, _exc_name(e), "" if legal else "(format cannot hold it)"))
                if legal:
                    acc.violation("write:%s:idx-v%d:raises-%s%s" % (site, version, _exc_name(e), _hcls(hash_name)),
                                  "%s via %s: %s in %s: %s" % (fam, api, _exc_name(e), _exc_site(e), str(e)[:160]), rpd)
                if os.path.exists(base + ".idx"):
                    os.unlink(base + ".idx")
                continue
            with open(base + ".idx", "rb") as f:
                data = f.read()
            if data in seen:  # byte-identical to an index already taken: nothing new to read
                acc.outcome("W:idx-v%d:reindex-bytes-equal-entries-bytes" % version)
                os.unlink(base + ".idx")
                continue
            seen[data] = 1
            os.link(packpath, base + ".pack")
            out.append((site, version, base, data))
    return out


def _idx_legal(version, hash_name):
    """v1 stores 20-byte names only; dulwich's v3 writer declares SHA-256 not implemented
    (NotImplementedError) — both are refusals, not round-trip failures."""
    return hash_name == "sha1" or version == 2


def _deltify(P, objs, window, fmt):
    """deltify_pack_objects, telling it the pack's object format where the API has a way to."""
    import inspect

    kw = {"object_format": fmt} if "object_format" in inspect.signature(P.deltify_pack_objects).parameters else {}
    return P.deltify_pack_objects(iter(objs), window_size=window, **kw)


def case_wseq(acc, pool_name, idxs, hash_name, mode, opt, shared=None):
    """One W.seq case.  mode/opt:
       wp    (deltify, window)          write_pack, level -1, default index
       wpo   (deltify, level)           write_pack_objects + idx v1/v2/v3 (entries + reindex)
       wpd   (window, level)            deltify_pack_objects(window) -> records in input order -> write_pack_data
       store (level, index_version)     DiskObjectStore.add_objects
    """
    P = _P()
    fmt = _fmt(hash_name)
    rpd = rp(case_wseq, pool_name, list(idxs), hash_name, mode, list(opt))
    exp = _objs(pool_name, idxs, hash_name)
    objs = [_shafile(t, d, hash_name) for t, d in exp]
    fam = "W.seq/%s%s/%s%r" % (pool_name, list(idxs), mode, tuple(opt))
    d = fresh_dir("w")
    acc.count("W.seq_cases")
    ordered = True
    try:
        entries = checksum = None
        variants = None
        try:
            if mode == "wp":
                deltify, window = opt
                base = os.path.join(d, "p")
                checksum, _idxsum = P.write_pack(base, [(o, None) for o in objs], fmt, deltify=deltify, delta_window_size=window)
                packpath = base + ".pack"
                ordered = not deltify
                with open(base + ".idx", "rb") as f:
                    variants = [("write_pack", P.DEFAULT_PACK_INDEX_VERSION, base, f.read())]
            elif mode == "wpo":
                deltify, level = opt
                packpath = os.path.join(d, "p.pack")
                with open(packpath, "wb") as f:
                    entries, checksum = P.write_pack_objects(f.write, [(o, None) for o in objs] if deltify else list(objs), fmt,
                                                             deltify=deltify, compression_level=level)
                ordered = not deltify
            elif mode == "wpd":
                window, level = opt
                recs = list(_deltify(P, [(o, None) for o in objs], window, fmt))
                pos = {}
                for i, o in enumerate(objs):  # records carry the SHA-1 or the pack-format name
                    pos[o.sha().digest()] = pos[o.sha(fmt).digest()] = i
                recs.sort(key=lambda u: pos[u.sha()])
                packpath = os.path.join(d, "p.pack")
                with open(packpath, "wb") as f:
                    entries, checksum = P.write_pack_data(f.write, iter(recs), num_records=len(recs), compression_level=level,
                                                          object_format=fmt)
            elif mode == "store":
                from dulwich.object_store import DiskObjectStore

                level, iv = opt
                sd = os.path.join(d, "objects")
                os.makedirs(os.path.join(sd, "pack"))
                store = DiskObjectStore(sd, pack_compression_level=level, pack_index_version=iv, object_format=fmt)
                try:
                    pk = store.add_objects([(o, None) for o in objs])
                    if pk is None:
                        if objs:
                            acc.violation("write:DiskObjectStore.add_objects:no-pack-written%s" % _hcls(hash_name), fam, rpd)
                        else:
                            acc.outcome("W:store:empty-set-writes-no-pack")
                        return
                    base = pk._basename
                    # the store itself must serve the objects
                    for (t, dt), n in zip(exp, _names(exp, hash_name)):
                        got = store.get_raw(n.hex().encode())
                        if got != (t, dt):
                            acc.violation("read:DiskObjectStore.get_raw:object-differs%s" % _hcls(hash_name), "%s %s" % (fam, n.hex()[:12]), rpd)
                finally:
                    store.close()
                packpath = base + ".pack"
                with open(base + ".idx", "rb") as f:
                    variants = [("DiskObjectStore._complete_pack", iv or P.DEFAULT_PACK_INDEX_VERSION, base, f.read())]
            else:
                raise HarnessError("mode " + mode)
        except HarnessError:
            raise
        except Exception as e:
            legal = not (mode == "store" and hash_name != "sha1" and opt[1] in (1, 3))
            acc.outcome("W:%s:%s:writer-raises-%s%s" % (mode, hash_name, _exc_name(e), "" if legal else "(format cannot hold it)"))
            if legal:
                acc.violation("write:%s:raises-%s:%s%s" % (_API[mode], _exc_name(e), _exc_site(e), _hcls(hash_name)),
                              "%s: %s in %s: %s" % (fam, _exc_name(e), _exc_site(e), str(e)[:160]), rpd)
            return
        with open(packpath, "rb") as f:
            data = f.read()
        pr = oracle_pack(acc, "W.seq", data, exp, hash_name, rpd, ordered=ordered)
        if pr is None:
            return
        pinfo, res = pr
        if checksum is not None and checksum != pinfo.trailer:
            acc.violation("write:%s:returned-checksum-differs-from-trailer%s" % (_API[mode], _hcls(hash_name)), fam, rpd)
        if entries is not None:
            mine = {r.name: (e.offset, e.crc32) for r, e in zip(res, pinfo.entries)}
            if dict(entries) != mine:
                what = "names-wrong" if set(entries) != set(mine) else ("offset-wrong" if {k: v[0] for k, v in entries.items()} != {k: v[0] for k, v in mine.items()} else "crc32-wrong")
                acc.violation("write:%s:returned-entries:%s%s" % (_API[mode], what, _hcls(hash_name)),
                              "%s: returned %s, pack has %s" % (fam, _fmt_entries([(k,) + tuple(v) for k, v in sorted(entries.items())]),
                                                                _fmt_entries([(k,) + v for k, v in sorted(mine.items())])), rpd)
                entries = None
        if variants is None:
            variants = _write_idx_variants(acc, fam, d, packpath, entries, checksum, hash_name, rpd, _API[mode])
        oracle_git_pack(acc, fam, packpath, pinfo, res, hash_name, rpd, shared)
        first = True
        for site, version, base, idxdata in sorted(variants, key=lambda v: (v[1] != 2, v[1])):
            iinfo = oracle_idx(acc, fam, pinfo, res, idxdata, version, hash_name, rpd, site)
            if iinfo is None:
                continue
            oracle_read(acc, fam, base, res, _ref_entries(pinfo, res), version, hash_name, rpd, orders="all" if first else "few")
            first = False
            oracle_git_pair(acc, fam, base, pinfo, res, iinfo, hash_name, rpd, shared)
        acc.outcome("W:%s:%s:round-trip-evaluated" % (mode, hash_name))
    finally:
        rmtree(d)


_API = {"wp": "write_pack", "wpo": "write_pack_objects", "wpd": "write_pack_data", "store": "DiskObjectStore.add_objects"}


def wseq_options(quick):
    """thorough: full products.  quick: window x level and level x index version one factor at a
    time around (None, -1) — they are independent in the code (deflate level in pack_object_chunks,
    window in deltas_from_sorted_objects, index version in write_pack_index)."""
    out = []
    for deltify, window in [(False, None)] + [(True, w) for w in WINDOWS]:
        out.append(("wp", (deltify, window)))
    for deltify in (False, True):
        for level in LEVELS:
            out.append(("wpo", (deltify, level)))
    for window in WINDOWS:
        for level in LEVELS:
            if not quick or window is None or level == -1:
                out.append(("wpd", (window, level)))
    for level in LEVELS:
        for iv in (None, 1, 2, 3):
            if not quick or iv is None or level == -1:
                out.append(("store", (level, iv)))
    return out


def ordered_selections(n, k):
    for r in range(0, k + 1):
        yield from itertools.permutations(range(n), r)


# --------------------------------------------------------------------------- W.ofs / W.slice


def _finish_written(acc, fam, d, packpath, exp, entries, checksum, hash_name, rpd, shared, api, ordered=True, versions=(2,)):
    """Shared tail of the small W families: all oracles on a pack dulwich just wrote."""
    P = _P()
    with open(packpath, "rb") as f:
        data = f.read()
    pr = oracle_pack(acc, fam.split("/")[0], data, exp, hash_name, rpd, ordered=ordered)
    if pr is None:
        return None
    pinfo, res = pr
    if checksum != pinfo.trailer:
        acc.violation("write:%s:returned-checksum-differs-from-trailer%s" % (api, _hcls(hash_name)), fam, rpd)
    mine = {r.name: (e.offset, e.crc32) for r, e in zip(res, pinfo.entries)}
    if dict(entries) != mine:
        what = "names-wrong" if set(entries) != set(mine) else ("offset-wrong" if {k: v[0] for k, v in entries.items()} != {k: v[0] for k, v in mine.items()} else "crc32-wrong")
        acc.violation("write:%s:returned-entries:%s%s" % (api, what, _hcls(hash_name)), fam, rpd)
        return pinfo, res
    oracle_git_pack(acc, fam, packpath, pinfo, res, hash_name, rpd, shared)
    for version in versions:
        base = os.path.join(d, "v%d" % version)
        os.link(packpath, base + ".pack")
        with open(base + ".idx", "wb") as f:
            P.write_pack_index(f, sorted((k, v[0], v[1]) for k, v in entries.items()), checksum, version=version)
        with open(base + ".idx", "rb") as f:
            idxdata = f.read()
        ii = oracle_idx(acc, fam, pinfo, res, idxdata, version, hash_name, rpd, "write_pack_index")
        if ii is not None:
            oracle_read(acc, fam, base, res, _ref_entries(pinfo, res), version, hash_name, rpd, orders="all")
            oracle_git_pair(acc, fam, base, pinfo, res, ii, hash_name, rpd, shared)
    return pinfo, res


def case_wofs(acc, filler_size, shared=None):
    """[base, filler, delta-against-base] written at deflate level 0: the distance the OFS delta has
    to encode is a known function of filler_size; the sweep crosses 127/128, 16511/16512 and
    2113663/2113664 (1/2, 2/3, 3/4 bytes of offset encoding)."""
    P = _P()
    hash_name = "sha1"
    fmt = _fmt(hash_name)
    rpd = rp(case_wofs, filler_size)
    base = (3, _stream(100, b"ofs-base"))
    target = (3, base[1][:90] + b"!")  # shorter: deltify makes it a delta against `base`
    filler = (3, _noise(filler_size, b"filler%d" % filler_size))
    fam = "W.ofs/filler=%d" % filler_size
    acc.count("W.ofs_cases")
    d = fresh_dir("w")
    try:
        bo, to, fo = (_shafile(t, x, hash_name) for t, x in (base, target, filler))
        recs = list(P.deltify_pack_objects(iter([(bo, None), (to, None)])))
        if [u.sha() for u in recs] != [bo.sha().digest(), to.sha().digest()] or recs[1].delta_base != bo.sha().digest():
            raise HarnessError("W.ofs: deltify did not make the target a delta against the base")
        recs.insert(1, P.full_unpacked_object(fo))
        packpath = os.path.join(d, "p.pack")
        try:
            with open(packpath, "wb") as f:
                entries, checksum = P.write_pack_data(f.write, iter(recs), num_records=3, compression_level=0, object_format=fmt)
        except Exception as e:
            acc.violation("write:write_pack_data:raises-%s:%s" % (_exc_name(e), _exc_site(e)), "%s: %s" % (fam, str(e)[:160]), rpd)
            return
        pr = _finish_written(acc, fam, d, packpath, [base, filler, target], entries, checksum, hash_name, rpd, shared, "write_pack_data")
        if pr:
            e = pr[0].entries[2]
            if e.type != R.OFS_DELTA:
                raise HarnessError("W.ofs: third entry is not an OFS delta")
            acc.outcome("W.ofs:distance-bytes=%d" % e.ofs_len)
            acc.note("W.ofs:distance(filler=%d)" % filler_size, e.offset - e.base_offset)
    finally:
        rmtree(d)


WOFS_FILLERS = list(range(0, 24)) + list(range(16376, 16396)) + list(range(2113368, 2113384))


def case_wslice(acc, size, level, layout, shared=None):
    """One blob whose deflate stream ends exactly at / next to a multiple of the 64 KiB slice that
    read_zlib_chunks_at and PackStreamReader feed to zlib; layout: alone | then-small | small-then."""
    from io import BytesIO

    from dulwich.object_store import DiskObjectStore

    P = _P()
    hash_name = "sha1"
    fmt = _fmt(hash_name)
    rpd = rp(case_wslice, size, level, layout)
    big = (3, _noise(size, b"slice"))
    small = (3, b"small\n")
    exp = {"alone": [big], "then-small": [big, small], "small-then": [small, big]}[layout]
    fam = "W.slice/size=%d/level=%d/%s" % (size, level, layout)
    acc.count("W.slice_cases")
    d = fresh_dir("w")
    try:
        objs = [_shafile(t, x, hash_name) for t, x in exp]
        packpath = os.path.join(d, "p.pack")
        with open(packpath, "wb") as f:
            entries, checksum = P.write_pack_objects(f.write, objs, fmt, deltify=False, compression_level=level)
        pr = _finish_written(acc, fam, d, packpath, exp, entries, checksum, hash_name, rpd, shared, "write_pack_objects")
        if not pr:
            return
        for e in pr[0].entries:
            if e.size == size:
                acc.outcome("W.slice:deflate-length-minus-k*64KiB=%+d" % (((e.zlen + 32768) % 65536) - 32768))
        # the streaming reader (PackStreamReader / PackStreamCopier) on the same bytes
        with open(packpath, "rb") as f:
            data = f.read()
        sd = os.path.join(d, "objects")
        os.makedirs(os.path.join(sd, "pack"))
        store = DiskObjectStore(sd, object_format=fmt)
        try:
            for how in ("read", "recv"):
                src = BytesIO(data)
                try:
                    r = P.PackStreamReader(fmt.hash_func, src.read, (lambda n: src.read(min(n, 4096))) if how == "recv" else None)
                    got = [(u.obj_type_num, b"".join(u.obj_chunks)) for u in r.read_objects()]
                    if got != exp:
                        acc.violation("read:PackStreamReader.read_objects:objects-differ", "%s via %s" % (fam, how), rpd)
                except Exception as e:
                    acc.violation("read:PackStreamReader.read_objects:raises-%s" % _exc_name(e), "%s via %s: %s: %s" % (fam, how, _exc_site(e), str(e)[:120]), rpd)
            try:
                src = BytesIO(data)
                pk = store.add_thin_pack(src.read, None)
                for (t, x), n in zip(exp, _names(exp, hash_name)):
                    if store.get_raw(n.hex().encode()) != (t, x):
                        acc.violation("read:DiskObjectStore.get_raw:object-differs-after-add_thin_pack", fam, rpd)
            except Exception as e:
                acc.violation("read:DiskObjectStore.add_thin_pack:raises-%s" % _exc_name(e), "%s: %s: %s" % (fam, _exc_site(e), str(e)[:120]), rpd)
        finally:
            store.close()
    finally:
        rmtree(d)


# level 0 stores the bytes: deflate length = size + a few bytes per stored block; the sweeps are wide
# enough to cross k*65536 (asserted in run() from the measured lengths)
WSLICE_SIZES = list(range(65514, 65528)) + list(range(131044, 131064))


# --------------------------------------------------------------------------- W.reuse


def _source_store(acc, rpd, d, kind, hash_name, nobj):
    """A DiskObjectStore whose only pack holds the first nobj objects of pool E packed with deltas by
    `kind`: git-ref (REF deltas), git-ofs (OFS deltas), dulwich (write_pack deltify=True)."""
    from dulwich.object_store import DiskObjectStore

    P = _P()
    fmt = _fmt(hash_name)
    objs = pool("E", hash_name)[:nobj]
    sd = os.path.join(d, "src-objects")
    os.makedirs(os.path.join(sd, "pack"))
    stem = os.path.join(sd, "pack", "pack-" + "0" * 39 + "1")
    if kind == "dulwich":
        try:
            with open(stem + ".pack", "wb") as f:
                P.write_pack_objects(f.write, [(_shafile(t, x, hash_name), None) for t, x in objs], fmt, deltify=True)
            pd = P.PackData(stem + ".pack", object_format=fmt)
            try:
                pd.create_index(stem + ".idx", version=2)
            finally:
                pd.close()
        except Exception as e:
            acc.violation("write:write_pack_objects+create_index:raises-%s:%s%s" % (_exc_name(e), _exc_site(e), _hcls(hash_name)),
                          "W.reuse source store: %s" % str(e)[:160], rpd)
            return None
    else:
        data = _git_pack(hash_name, _names(objs, hash_name), ["--depth=50", "--window=10"] + (["--delta-base-offset"] if kind == "git-ofs" else []))
        with open(stem + ".pack", "wb") as f:
            f.write(data)
        _git_index(hash_name, os.path.dirname(stem), stem + ".pack", os.path.basename(stem), None)
    with open(stem + ".pack", "rb") as f:
        pr = oracle_pack(acc, "W.reuse-source", f.read(), objs, hash_name, rpd, writer="dulwich" if kind == "dulwich" else "C git",
                         ordered=False)
    if pr is None:
        return None  # dulwich wrote an unusable source pack: violation recorded
    if not any(r.kind != "full" for r in pr[1]):
        raise HarnessError("W.reuse: source pack (%s) holds no deltas" % kind)
    return DiskObjectStore(sd, object_format=fmt), pr[1]


def case_wreuse(acc, kind, idxs, hash_name, reuse, deltify, window, thin, shared=None):
    """write_pack_from_container out of a store already packed with deltas, for the ordered selection
    idxs of pool E.  thin: the objects not selected are declared as other_haves (deltas against them
    may be reused -> thin pack, which dulwich and C git must be able to complete)."""
    from io import BytesIO

    from dulwich.object_store import DiskObjectStore

    P = _P()
    fmt = _fmt(hash_name)
    rpd = rp(case_wreuse, kind, list(idxs), hash_name, reuse, deltify, window, thin)
    NOBJ = 6
    pl = pool("E", hash_name)[:NOBJ]
    exp = [pl[i] for i in idxs]
    names = _names(pl, hash_name)
    others = [i for i in range(NOBJ) if i not in idxs]
    fam = "W.reuse/%s%r/reuse=%d/deltify=%d/window=%r/thin=%d" % (kind, tuple(idxs), reuse, deltify, window, thin)
    hc = _hcls(hash_name)
    acc.count("W.reuse_cases")
    d = fresh_dir("w")
    try:
        src = _source_store(acc, rpd, d, kind, hash_name, NOBJ)
        if src is None:
            return
        store = src[0]
        packpath = os.path.join(d, "p.pack")
        try:
            try:
                with open(packpath, "wb") as f:
                    entries, checksum = P.write_pack_from_container(
                        f.write, store, [(names[i].hex().encode(), None) for i in idxs], fmt, delta_window_size=window,
                        deltify=deltify, reuse_deltas=reuse,
                        other_haves={names[i].hex().encode() for i in others} if thin else None)
            except Exception as e:
                acc.outcome("W.reuse:%s:writer-raises-%s" % (hash_name, _exc_name(e)))
                acc.violation("write:write_pack_from_container:raises-%s:%s%s" % (_exc_name(e), _exc_site(e), hc),
                              "%s: %s in %s: %s" % (fam, _exc_name(e), _exc_site(e), str(e)[:160]), rpd)
                return
        finally:
            store.close()
        with open(packpath, "rb") as f:
            data = f.read()
        ext = {names[i]: pl[i] for i in others} if thin else {}
        try:
            pinfo = R.parse_pack(data, hash_name)
            nthin = sum(1 for e in pinfo.entries if e.type == R.REF_DELTA and e.base_name in ext)
        except R.FormatError:
            nthin = 0
        if not nthin:
            pr = _finish_written(acc, fam, d, packpath, exp, entries, checksum, hash_name, rpd, shared, "write_pack_from_container",
                                 ordered=False)
            if pr:
                acc.outcome("W.reuse:%s:%s:reuse=%d:deltify=%d:kinds=%s" % (hash_name, kind, reuse, deltify, "+".join(sorted({r.kind for r in pr[1]})) or "empty"))
            return
        # ---- thin result
        acc.outcome("W.reuse:%s:%s:thin-pack-external-bases=%d" % (hash_name, kind, min(nthin, 3)))
        pr = oracle_pack(acc, "W.reuse-thin", data, exp, hash_name, rpd, external=ext, ordered=False)
        if pr is None:
            return
        pinfo, res = pr
        # C git completes it
        if _claim(shared, "T-" + hash_name + "-" + pinfo.trailer.hex()):
            st = _gitstate(hash_name)
            out = os.path.join(d, "fixed.pack")
            p = git(["index-pack", "--fix-thin", "--strict", "--stdin", out], cwd=st["full"], input=data, check=False)
            acc.count("git_index_pack")
            if p.returncode != 0:
                acc.violation("git:index-pack--fix-thin:rejects-dulwich-thin-pack%s" % hc, "%s: %s" % (fam, p.stderr.decode("latin1")[-200:]), rpd)
            else:
                acc.outcome("git:index-pack--fix-thin:accepted")
        # dulwich completes it
        sd = os.path.join(d, "objects")
        os.makedirs(os.path.join(sd, "pack"))
        st2 = DiskObjectStore(sd, object_format=fmt)
        try:
            for i in others:
                st2.add_object(_shafile(pl[i][0], pl[i][1], hash_name))
            try:
                src = BytesIO(data)
                st2.add_thin_pack(src.read, None)
                for i in idxs:
                    if st2.get_raw(names[i].hex().encode()) != pl[i]:
                        acc.violation("read:DiskObjectStore.get_raw:object-differs-after-add_thin_pack%s" % hc, fam, rpd)
            except Exception as e:
                acc.violation("read:DiskObjectStore.add_thin_pack:raises-%s%s" % (_exc_name(e), hc), "%s: %s: %s" % (fam, _exc_site(e), str(e)[:120]), rpd)
        finally:
            st2.close()
    finally:
        rmtree(d)


# --------------------------------------------------------------------------- I: index only

I_OFFSETS = (12, 0x7FFFFFFF, 0x80000000, 0xFFFFFFFF, 0x100000000, 1 << 40)
I_FIRST = (0x00, 0x00, 0x01, 0x7F, 0xFE, 0xFF, 0xFF)  # two names in the first and in the last bucket


def i_names(hash_name):
    hl = R.hash_len(hash_name)
    out = []
    for k, fb in enumerate(I_FIRST):
        out.append(bytes([fb]) + hashlib.sha256(b"name%d" % k).digest()[: hl - 1])
    return out


def _crc_for(name):
    return int.from_bytes(hashlib.sha1(name).digest()[:4], "big")


def _idx_read_oracle(acc, fam, path, entries, pack_checksum, version, hash_name, rpd, writer):
    """dulwich's index reader on a file whose contents the reference model knows."""
    P = _P()
    fmt = _fmt(hash_name)
    hc = _hcls(hash_name)
    vio = lambda key, msg: acc.violation(key + ("@large-offset" if any(o >= 1 << 31 for _, o, _ in entries) else "") + hc,
                                         "%s (idx v%d written by %s): %s" % (fam, version, writer, msg), rpd)
    want = sorted((n, o, (c if version >= 2 else None)) for n, o, c in entries)
    try:
        ix = P.load_pack_index(path, fmt)
    except Exception as e:
        vio("read:load_pack_index:raises-%s" % _exc_name(e), "%s: %s" % (_exc_site(e), str(e)[:120]))
        return
    cn = "PackIndex%d" % version
    try:
        if type(ix).__name__ != cn:
            vio("read:load_pack_index:wrong-class", type(ix).__name__)
        if len(ix) != len(want):
            vio("read:%s.__len__:wrong" % cn, "%d, want %d" % (len(ix), len(want)))
        got = [tuple(e) for e in ix.iterentries()]
        if got != want:
            vio("read:%s.iterentries:%s" % (cn, _entries_diff(got, want)), "got %s want %s" % (_fmt_entries(got), _fmt_entries(want)))
        if list(ix) != [n.hex().encode() for n, _, _ in want]:
            vio("read:%s.__iter__:names-differ" % cn, "")
        for n, o, _ in want:
            for key in (n, n.hex().encode()):
                try:
                    g = ix.object_offset(key)
                except Exception as e:
                    vio("read:%s.object_offset:raises-%s" % (cn, _exc_name(e)), "%s: %s: %s" % (n.hex()[:12], _exc_site(e), str(e)[:100]))
                    continue
                if g != o:
                    vio("read:%s.object_offset:offset-wrong" % cn, "%s -> %#x, want %#x" % (n.hex()[:12], g, o))
            try:
                g = ix.object_sha1(o)
                if g != n and [x for x in want if x[1] == o][0][0] != g:
                    vio("read:%s.object_sha1:name-wrong" % cn, "offset %#x -> %r" % (o, g))
            except Exception as e:
                vio("read:%s.object_sha1:raises-%s" % (cn, _exc_name(e)), "offset %#x: %s" % (o, str(e)[:100]))
        present = {n for n, _, _ in want}
        hl = R.hash_len(hash_name)
        misses = [bytes([fb]) + bytes([fill]) * (hl - 1) for fb in sorted(set(I_FIRST) | {0x02, 0x80}) for fill in (0x00, 0xFF)]
        misses += [n[:-1] + bytes([n[-1] ^ 1]) for n in present]
        for m in misses:
            if m in present:
                continue
            try:
                g = ix.object_offset(m)
                vio("read:%s.object_offset:absent-name-found" % cn, "%s -> %#x" % (m.hex()[:12], g))
            except KeyError:
                pass
            except Exception as e:
                vio("read:%s.object_offset:absent-name-raises-%s" % (cn, _exc_name(e)), "%s: %s" % (m.hex()[:12], str(e)[:100]))
        for fb in sorted(set(I_FIRST) | {0x02}):
            try:
                g = list(ix.iter_prefix(bytes([fb])))
                w = [n for n, _, _ in want if n[0] == fb]
                if g != w:
                    vio("read:%s.iter_prefix:names-differ" % cn, "prefix %02x: got %d want %d" % (fb, len(g), len(w)))
            except Exception as e:
                vio("read:%s.iter_prefix:raises-%s" % (cn, _exc_name(e)), "prefix %02x: %s: %s" % (fb, _exc_site(e), str(e)[:100]))
        for n, _, _ in want[:2]:
            try:
                g = list(ix.iter_prefix(n[:3]))
                if g != [n]:
                    vio("read:%s.iter_prefix:names-differ" % cn, "3-byte prefix of %s: %r" % (n.hex()[:12], g))
            except Exception as e:
                vio("read:%s.iter_prefix:raises-%s" % (cn, _exc_name(e)), "3-byte prefix: %s: %s" % (_exc_site(e), str(e)[:100]))
        if ix.get_pack_checksum() != pack_checksum:
            vio("read:%s.get_pack_checksum:wrong" % cn, "")
        try:
            ix.check()
        except Exception as e:
            vio("read:%s.check:raises-%s" % (cn, _exc_name(e)), str(e)[:100])
        acc.count("idx_reads")
    except Exception as e:
        vio("read:%s:raises-%s" % (cn, _exc_name(e)), "%s: %s" % (_exc_site(e), str(e)[:120]))
    finally:
        ix.close()


def case_idx(acc, name_idxs, offsets, version, hash_name, shared=None):
    """Synthetic entries (name_idxs[i] at offsets[i]) -> dulwich writer -> reference parser, C git
    show-index, dulwich reader; reference writer -> dulwich reader."""
    P = _P()
    rpd = rp(case_idx, list(name_idxs), list(offsets), version, hash_name)
    nm = i_names(hash_name)
    entries = sorted((nm[i], o, _crc_for(nm[i])) for i, o in zip(name_idxs, offsets))
    hl = R.hash_len(hash_name)
    pack_checksum = hashlib.sha256(b"pack").digest()[:hl]
    fam = "I/%s@%s" % ([nm[i][0] for i in name_idxs], ["%#x" % o for o in offsets])
    hc = _hcls(hash_name)
    acc.count("I_cases")
    d = fresh_dir("i")
    try:
        fits = (version != 1 or all(o <= 0xFFFFFFFF for o in offsets)) and _idx_legal(version, hash_name)
        # ---- dulwich writes
        path = os.path.join(d, "w.idx")
        data = None
        try:
            with open(path, "wb") as f:
                ret = P.write_pack_index(f, entries, pack_checksum, version=version)
            with open(path, "rb") as f:
                data = f.read()
        except Exception as e:
            acc.outcome("I:write-v%d:%s:refused-%s%s" % (version, hash_name, _exc_name(e), "" if fits else "(format cannot hold it)"))
            if fits:
                acc.violation("write:write_pack_index_v%d:raises-%s%s" % (version, _exc_name(e), hc),
                              "%s: %s in %s: %s" % (fam, _exc_name(e), _exc_site(e), str(e)[:120]), rpd)
        if data is not None and not fits:
            acc.violation("write:write_pack_index_v%d:writes-what-the-format-cannot-hold%s" % (version, hc), fam, rpd)
            data = None
        if data is not None:
            ok = True
            try:
                ii = R.parse_idx(data, hash_name)
                problems = list(ii.problems)
                if ii.version != version:
                    problems.append("version-is-%d" % ii.version)
                if not problems:
                    got = [(n, o, (c if version >= 2 else _crc_for(n))) for n, o, c in ii.entries]
                    if got != entries:
                        problems.append(_entries_diff(got, entries))
                    if ii.pack_checksum != pack_checksum:
                        problems.append("pack-checksum-wrong")
                    if ret != ii.idx_checksum:
                        problems.append("returned-checksum-differs-from-trailer")
            except R.FormatError as e:
                problems = [e.code]
            lc = "@large-offset" if any(o >= 1 << 31 for o in offsets) else ""
            for pr in problems:
                ok = False
                acc.violation("write:write_pack_index_v%d:%s%s%s" % (version, pr, lc, hc), "%s: %d-byte index" % (fam, len(data)), rpd)
            if ok:
                if version >= 2 and ii.large_table:
                    acc.outcome("I:write-v%d:64-bit-table-entries=%d" % (version, len(ii.large_table)))
                ref = R.build_idx(version, entries, pack_checksum, hash_name)
                acc.outcome("I:write-v%d:%s:%s" % (version, hash_name, "bytes-equal-reference-writer" if ref == data else "bytes-differ-from-reference-writer"))
                if version <= 2 and _claim(shared, "X-" + hashlib.sha1(data).hexdigest()):
                    p = git(["show-index", "--object-format=" + hash_name], input=data, check=False)
                    acc.count("git_show_index")
                    want = [(o, n.hex(), (c if version >= 2 else None)) for n, o, c in entries]
                    if p.returncode != 0:
                        acc.violation("git:show-index:rejects-dulwich-idx-v%d%s" % (version, hc), "%s: %s" % (fam, p.stderr[-200:]), rpd)
                    elif R.parse_show_index(p.stdout) != want:
                        raise HarnessError("ORACLE-DISAGREEMENT: git show-index and the reference parser read an idx differently: %r"
                                           % (rpd,))
                    else:
                        acc.outcome("git:show-index:agrees-v%d" % version)
                _idx_read_oracle(acc, fam, path, entries, pack_checksum, version, hash_name, rpd, "dulwich")
        # ---- reference writer -> dulwich reader (incl. small offsets forced through the 64-bit table)
        if fits:  # (a v3 index with SHA-256 names is written by nobody: not part of any round trip)
            variants = [()]
            if version >= 2 and any(o < 1 << 31 for o in offsets):
                variants.append(tuple(o for o in offsets if o < 1 << 31))
            for k, force in enumerate(variants):
                ref = R.build_idx(version, entries, pack_checksum, hash_name, force_large=force)
                rpath = os.path.join(d, "r%d.idx" % k)
                with open(rpath, "wb") as f:
                    f.write(ref)
                _idx_read_oracle(acc, fam + ("/forced-64-bit" if force else ""), rpath, entries, pack_checksum, version, hash_name, rpd, "reference")
    finally:
        rmtree(d)


def idx_cases(kmax):
    n = len(I_FIRST)
    for r in range(0, kmax + 1):
        for names in itertools.combinations(range(n), r):
            for offs in itertools.product(I_OFFSETS, repeat=r):
                yield names, offs


# --------------------------------------------------------------------------- R: reference-built packs


def forests(n):
    """Every parent assignment on n labelled nodes without cycles: tuple parent[i] in {None, j != i}."""
    for par in itertools.product([None] + list(range(n)), repeat=n):
        ok = True
        for i in range(n):
            if par[i] == i:
                ok = False
                break
            seen = {i}
            j = par[i]
            while j is not None:
                if j in seen:
                    ok = False
                    break
                seen.add(j)
                j = par[j]
            if not ok:
                break
        if ok:
            yield par


def rpack_cases(n):
    """(parents, pack order, kinds): kinds[i] in {None (full), 'ofs' (base earlier in the pack), 'ref'}."""
    for par in forests(n):
        for order in itertools.permutations(range(n)):
            posn = {v: k for k, v in enumerate(order)}
            choices = []
            for i in range(n):
                if par[i] is None:
                    choices.append((None,))
                elif posn[par[i]] < posn[i]:
                    choices.append(("ofs", "ref"))
                else:
                    choices.append(("ref",))
            for kinds in itertools.product(*choices):
                yield par, order, kinds


def _install(d, stem, packdata, idxdata):
    base = os.path.join(d, stem)
    if not os.path.exists(base + ".pack"):
        with open(base + ".pack", "wb") as f:
            f.write(packdata)
    with open(base + ".idx", "wb") as f:
        f.write(idxdata)
    return base


def case_rpack(acc, parents, order, kinds, hash_name, level, shared=None):
    """Pack built by the reference writer from versions of one blob (pool E): object i is a delta
    against parents[i] of kind kinds[i]; entries in `order`.  C git must accept it (else the
    reference writer is wrong); dulwich reads it through reference-built idx v1/v2/v3."""
    rpd = rp(case_rpack, list(parents), list(order), list(kinds), hash_name, level)
    pl = pool("E", hash_name)
    n = len(parents)
    objs = pl[:n]
    names = _names(objs, hash_name)
    w = R.PackWriter(hash_name, level=level)
    off = {}
    for i in order:
        t, d = objs[i]
        if kinds[i] is None:
            off[i] = w.add_full(t, d)
        else:
            delta = R.make_delta(objs[parents[i]][1], d)
            if kinds[i] == "ofs":
                off[i] = w.add_ofs(off[parents[i]], delta)
            else:
                off[i] = w.add_ref(names[parents[i]], delta)
    data = w.finish()
    fam = "R/par=%r order=%r kinds=%r" % (tuple(parents), tuple(order), tuple(kinds))
    acc.count("R_cases")
    d = fresh_dir("r")
    try:
        pinfo, res = oracle_pack(acc, "R", data, [objs[i] for i in order], hash_name, rpd, writer="reference")
        base0 = _install(d, "p", data, b"")
        if _claim(shared, "RP-" + hash_name + "-" + pinfo.trailer.hex()):  # (own namespace: counts stay seed-independent)
            st = _gitstate(hash_name)
            p = git(["index-pack", "--strict", "-o", os.path.join(d, "g.idx"), base0 + ".pack"], cwd=st["full"], check=False)
            acc.count("git_index_pack")
            if p.returncode != 0:
                raise HarnessError("C git rejects a reference-built pack (%s): %s" % (fam, p.stderr[-300:]))
            with open(os.path.join(d, "g.idx"), "rb") as f:
                gi = R.parse_idx(f.read(), hash_name)
            if sorted(gi.entries) != _ref_entries(pinfo, res):
                raise HarnessError("ORACLE-DISAGREEMENT: git index-pack vs reference parser on a reference-built pack (%s)" % fam)
            acc.outcome("git:index-pack--strict:accepts-reference-pack")
        ents = _ref_entries(pinfo, res)
        first = True
        for version in (2, 1, 3):
            if not _idx_legal(version, hash_name):
                continue
            base = os.path.join(d, "v%d" % version)
            os.link(base0 + ".pack", base + ".pack")
            with open(base + ".idx", "wb") as f:
                f.write(R.build_idx(version, ents, pinfo.trailer, hash_name))
            oracle_read(acc, fam, base, res, ents, version, hash_name, rpd, orders="all" if first and n <= 3 else "few",
                        singles=first)
            first = False
        acc.outcome("R:%s:depth=%d:kinds=%s" % (hash_name, max(r.depth for r in res) if res else 0,
                                                "+".join(sorted({r.kind for r in res})) or "empty"))
    finally:
        rmtree(d)


# --------------------------------------------------------------------------- G: C git writes, dulwich reads


def _git_pack(hash_name, names, args, not_revs=()):
    """`git pack-objects --stdout` over the given object names (with --revs in args: revisions,
    `not_revs` excluded) -> pack bytes."""
    st = _gitstate(hash_name)
    inp = b"".join(n.hex().encode() + b"\n" for n in names) + b"".join(b"^" + n.hex().encode() + b"\n" for n in not_revs)
    return git(["pack-objects", "-q", "--stdout"] + list(args), cwd=st["full"], input=inp).stdout


def _git_index(hash_name, d, packpath, stem, ivarg):
    st = _gitstate(hash_name)
    out = os.path.join(d, stem + ".idx")
    git(["index-pack", "--strict"] + ([ivarg] if ivarg else []) + ["-o", out, packpath], cwd=st["full"])
    rev = os.path.join(d, stem + ".rev")
    if os.path.exists(rev):
        os.unlink(rev)
    with open(out, "rb") as f:
        return f.read()


G_IDX = (("v2", None, 2), ("v1", "--index-version=1", 1), ("v2-64", "--index-version=2,0", 2))


def _read_git_pack(acc, fam, d, data, exp, hash_name, rpd, orders, singles=False, store_too=True):
    """Common part of the G cases: `data` is a self-contained pack written by C git."""
    P = _P()
    fmt = _fmt(hash_name)
    pinfo, res = oracle_pack(acc, fam.split("/")[0], data, exp, hash_name, rpd, writer="C git", ordered=False)
    ents = _ref_entries(pinfo, res)
    packpath = os.path.join(d, "g.pack")
    with open(packpath, "wb") as f:
        f.write(data)
    first = True
    for label, ivarg, version in G_IDX:
        if version == 1 and hash_name != "sha1":
            continue
        idxdata = _git_index(hash_name, d, packpath, "g-" + label, ivarg)
        acc.count("git_index_pack")
        ii = oracle_idx(acc, fam, pinfo, res, idxdata, version, hash_name, rpd, "git", writer="C git")
        if label == "v2-64" and pinfo.count > 1 and not ii.large_table:
            raise HarnessError("git --index-version=2,0 did not produce 64-bit entries")
        base = os.path.join(d, "g-" + label)
        os.link(packpath, base + ".pack")
        oracle_read(acc, fam + "/idx=" + label, base, res, ents, version, hash_name, rpd, orders=orders if first else "few",
                    singles=singles and first)
        if first:
            # dulwich re-indexes git's pack: same entries; byte equality with git's idx recorded only
            try:
                pd = P.PackData(packpath, object_format=fmt)
                try:
                    pd.create_index(os.path.join(d, "re.idx"), version=2)
                finally:
                    pd.close()
                with open(os.path.join(d, "re.idx"), "rb") as f:
                    mine = f.read()
                acc.outcome("G:reindex:%s" % ("bytes-equal-git-idx" if mine == idxdata else "bytes-differ-from-git-idx"))
                ri = oracle_idx(acc, fam + "/reindex", pinfo, res, mine, 2, hash_name, rpd, "PackData.create_index")
            except Exception as e:
                acc.violation("read:PackData.create_index:raises-%s%s" % (_exc_name(e), _hcls(hash_name)),
                              "%s: %s in %s: %s" % (fam, _exc_name(e), _exc_site(e), str(e)[:120]), rpd)
        first = False
    if store_too and res:
        from dulwich.object_store import DiskObjectStore

        sd = os.path.join(d, "objects")
        os.makedirs(os.path.join(sd, "pack"))
        stem = os.path.join(sd, "pack", "pack-" + pinfo.trailer.hex()[:40])
        os.link(packpath, stem + ".pack")
        os.link(os.path.join(d, "g-v2.idx"), stem + ".idx")
        store = DiskObjectStore(sd, object_format=fmt)
        try:
            for r in res:
                h = r.name.hex().encode()
                try:
                    if store.get_raw(h) != (r.type, r.data) or h not in store:
                        acc.violation("read:DiskObjectStore.get_raw:object-differs%s" % _entry_class(r, hash_name), "%s %s" % (fam, h[:12]), rpd)
                except Exception as e:
                    acc.violation("read:DiskObjectStore.get_raw:raises-%s%s" % (_exc_name(e), _entry_class(r, hash_name)),
                                  "%s %s: %s: %s" % (fam, h[:12], _exc_site(e), str(e)[:120]), rpd)
            if sorted(store) != sorted(r.name.hex().encode() for r in res):
                acc.violation("read:DiskObjectStore.__iter__:ids-differ%s" % _hcls(hash_name), fam, rpd)
        finally:
            store.close()
    return pinfo, res


def case_gsub(acc, pool_name, subset, hash_name, depth, dbo, shared=None):
    """git pack-objects over a subset of a pool."""
    rpd = rp(case_gsub, pool_name, list(subset), hash_name, depth, dbo)
    exp = _objs(pool_name, subset, hash_name)
    args = ["--depth=%d" % depth, "--window=10"] + (["--delta-base-offset"] if dbo else [])
    fam = "G.sub/%s%r/depth=%d/dbo=%d" % (pool_name, tuple(subset), depth, dbo)
    acc.count("G.sub_cases")
    d = fresh_dir("g")
    try:
        data = _git_pack(hash_name, _names(exp, hash_name), args)
        _read_git_pack(acc, fam, d, data, exp, hash_name, rpd, orders="all")
        acc.outcome("G.sub:%s:evaluated" % hash_name)
    finally:
        rmtree(d)


def case_gchain(acc, nver, hash_name, depth, dbo, shared=None):
    """Successive edits of one blob (pool V) packed by git with the given --depth."""
    rpd = rp(case_gchain, nver, hash_name, depth, dbo)
    exp = pool("V", hash_name)[:nver]
    args = ["--depth=%d" % depth, "--window=%d" % max(nver, 10)] + (["--delta-base-offset"] if dbo else [])
    fam = "G.chain/%d versions/depth=%d/dbo=%d" % (nver, depth, dbo)
    acc.count("G.chain_cases")
    d = fresh_dir("g")
    try:
        data = _git_pack(hash_name, _names(exp, hash_name), args)
        pinfo = R.parse_pack(data, hash_name)
        res = R.resolve_pack(pinfo)
        by_pack = [r.name for r in res]
        by_depth = [r.name for r in sorted(res, key=lambda r: (-r.depth, r.offset))]
        orders = [tuple(sorted(by_pack)), tuple(sorted(by_pack, reverse=True)), tuple(by_pack), tuple(reversed(by_pack)), tuple(by_depth)]
        _read_git_pack(acc, fam, d, data, exp, hash_name, rpd, orders=orders, singles=True)
        acc.outcome("G.chain:%s:depth-limit=%d:max-depth-reached=%d" % (hash_name, depth, max(r.depth for r in res)))
    finally:
        rmtree(d)


def case_gthin(acc, want, have, hash_name, dbo, shared=None):
    """git pack-objects --thin --revs <commit want> ^<commit have> over the linear history of pool T:
    the pack holds (blob, tree, commit) of versions have+1..want, possibly as deltas against the
    objects of version `have`, which are not in the pack (have = -1: nothing excluded).  dulwich
    completes it with DiskObjectStore.add_thin_pack in a store holding versions 0..have."""
    from io import BytesIO

    from dulwich.object_store import DiskObjectStore

    fmt = _fmt(hash_name)
    rpd = rp(case_gthin, want, have, hash_name, dbo)
    pl = pool("T", hash_name)
    trip = lambda k: [pl[k], pl[6 + k], pl[12 + k]]
    wobjs = [o for k in range(have + 1, want + 1) for o in trip(k)]
    hobjs = [o for k in range(0, have + 1) for o in trip(k)]
    fam = "G.thin/want=%d have=%d dbo=%d" % (want, have, dbo)
    acc.count("G.thin_cases")
    d = fresh_dir("g")
    try:
        data = _git_pack(hash_name, _names([pl[12 + want]], hash_name),
                         ["--revs", "--thin", "--depth=50", "--window=10"] + (["--delta-base-offset"] if dbo else []),
                         not_revs=_names([pl[12 + have]], hash_name) if have >= 0 else ())
        ext = {n: o for n, o in zip(_names(hobjs, hash_name), hobjs)}
        pinfo = R.parse_pack(data, hash_name)
        res = R.resolve_pack(pinfo, ext)
        if sorted((r.type, r.data) for r in res) != sorted(wobjs):
            raise HarnessError("thin pack from git does not hold the wanted objects")
        needed = sorted({e.base_name for e in pinfo.entries if e.type == R.REF_DELTA and e.base_name in ext})
        acc.outcome("G.thin:%s:external-bases=%d" % (hash_name, len(needed)))
        sd = os.path.join(d, "objects")
        os.makedirs(os.path.join(sd, "pack"))
        store = DiskObjectStore(sd, object_format=fmt)
        try:
            for t, dt in hobjs:
                store.add_object(_shafile(t, dt, hash_name))
            f = BytesIO(data)
            try:
                pk = store.add_thin_pack(f.read, None)
            except Exception as e:
                acc.violation("read:DiskObjectStore.add_thin_pack:raises-%s%s" % (_exc_name(e), _hcls(hash_name)),
                              "%s: %s in %s: %s" % (fam, _exc_name(e), _exc_site(e), str(e)[:160]), rpd)
                return
            base = pk._basename
            for (t, dt), n in zip(wobjs + hobjs, _names(wobjs + hobjs, hash_name)):
                try:
                    if store.get_raw(n.hex().encode()) != (t, dt):
                        acc.violation("read:DiskObjectStore.get_raw:object-differs-after-add_thin_pack%s" % _hcls(hash_name), "%s %s" % (fam, n.hex()[:12]), rpd)
                except Exception as e:
                    acc.violation("read:DiskObjectStore.get_raw:raises-%s-after-add_thin_pack%s" % (_exc_name(e), _hcls(hash_name)),
                                  "%s %s: %s" % (fam, n.hex()[:12], str(e)[:120]), rpd)
        finally:
            store.close()
        # the completed pack is a pack dulwich wrote (extend_pack): self-contained, consistent, acceptable to git
        with open(base + ".pack", "rb") as f:
            cdata = f.read()
        with open(base + ".idx", "rb") as f:
            cidx = f.read()
        cexp = wobjs + [ext[n] for n in needed]
        pr = oracle_pack(acc, "G.thin-completed", cdata, cexp, hash_name, rpd, ordered=False)
        if pr is None:
            return
        cinfo, cres = pr
        oracle_git_pack(acc, fam, base + ".pack", cinfo, cres, hash_name, rpd, shared)
        ii = oracle_idx(acc, fam, cinfo, cres, cidx, 2, hash_name, rpd, "DiskObjectStore._complete_pack")
        if ii is not None:
            oracle_read(acc, fam, base, cres, _ref_entries(cinfo, cres), 2, hash_name, rpd, orders="all")
            oracle_git_pair(acc, fam, base, cinfo, cres, ii, hash_name, rpd, shared)
    finally:
        rmtree(d)


def subsets(n, k):
    for r in range(0, k + 1):
        yield from itertools.combinations(range(n), r)


# --------------------------------------------------------------------------- task plumbing

CASE_CPU_LIMIT = 60


class _CpuLimit(BaseException):
    def __init__(self, site):
        self.site = site


def _on_cpu_limit(signum, frame):
    site = "?"
    f = frame
    while f is not None:
        if "/dulwich/" in f.f_code.co_filename:
            site = f.f_code.co_name
            break
        f = f.f_back
    raise _CpuLimit(site)


def _guarded(fn):
    """fn(acc, *args, shared=) with the per-case CPU watchdog and the safety net for exceptions that
    come out of dulwich where the case function did not expect one."""
    import signal

    def run1(acc, *args, shared=None):
        rargs = [list(a) if isinstance(a, tuple) else a for a in args]
        signal.signal(signal.SIGPROF, _on_cpu_limit)
        before = sum(v[0] for v in acc.viol.values())
        try:
            _run1(acc, rargs, args, shared)
        finally:
            if sum(v[0] for v in acc.viol.values()) != before:
                acc.count("violating_cases:%s:%s" % (fn.__name__[5:], "sha256" if "sha256" in args else "sha1"))

    def _run1(acc, rargs, args, shared):
        try:
            # watchdog on the CPU time of this process (not wall time: independent of machine load;
            # the slowest legitimate case needs about 1 s of CPU)
            signal.setitimer(signal.ITIMER_PROF, CASE_CPU_LIMIT)
            try:
                fn(acc, *args, shared=shared)
            finally:
                signal.setitimer(signal.ITIMER_PROF, 0)
        except _CpuLimit as e:
            acc.violation("hang:%s:no-result-within-%ds-cpu:%s" % (fn.__name__, CASE_CPU_LIMIT, e.site),
                          "%r: still running in %s after %d s of CPU" % (args, e.site, CASE_CPU_LIMIT), rp(fn, *rargs))
        except HarnessError:
            raise
        except Exception as e:
            # still dulwich's behaviour (a broken round trip), not a harness error; anything raised by
            # the harness or the reference model itself is re-raised
            tb = traceback.extract_tb(e.__traceback__)
            if not tb or "/dulwich/" not in tb[-1].filename:
                raise
            acc.violation("unexpected:%s:raises-%s:%s" % (fn.__name__, _exc_name(e), _exc_site(e)),
                          "%r: %s" % (args, str(e)[:200]), rp(fn, *rargs))

    return run1


class _GuardedCases:
    """Module look-alike for replay_generic: case functions wrapped like in work()."""

    def __getattr__(self, name):
        if not name.startswith("case_"):
            raise AttributeError(name)
        return _guarded(globals()[name])


def work(task):
    import signal

    signal.signal(signal.SIGTERM, signal.SIG_DFL)
    kind, items, shared = task
    acc = Acc()
    fn = _guarded(globals()["case_" + kind])
    for args in items:
        fn(acc, *args, shared=shared)
    return acc


def _bind_rust():
    """The Rust extension must be the one rebuilt from the working tree, and dulwich.pack must use it."""
    import sys

    from engines import common

    paths = common.preload_rust()
    P = _P()
    ext = sys.modules.get("dulwich._pack")
    if ext is None or getattr(ext, "__file__", None) != paths["_pack"]:
        raise HarnessError("dulwich._pack is not the extension rebuilt from the working tree (%r)" % getattr(ext, "__file__", None))
    if P.apply_delta is not ext.apply_delta or P.bisect_find_sha is not ext.bisect_find_sha:
        raise HarnessError("dulwich.pack is not bound to the rebuilt Rust extension")
    return paths


HASHES = ("sha1", "sha256")

REQUIRED_CLASSES = [
    # (class that must have been observed, why, case kind that produces it)
    ("shape:entry:ofs-distance=127", "OFS distance 1-byte maximum", "wofs"),
    ("shape:entry:ofs-distance=128", "OFS distance 2-byte minimum", "wofs"),
    ("shape:entry:ofs-distance=16511", "OFS distance 2-byte maximum", "wofs"),
    ("shape:entry:ofs-distance=16512", "OFS distance 3-byte minimum", "wofs"),
    ("shape:entry:ofs-distance=2113663", "OFS distance 3-byte maximum", "wofs"),
    ("shape:entry:ofs-distance=2113664", "OFS distance 4-byte minimum", "wofs"),
    ("W.slice:deflate-length-minus-k*64KiB=-1", "deflate stream one byte short of the read slice", "wslice"),
    ("W.slice:deflate-length-minus-k*64KiB=+0", "deflate stream ends exactly at the read slice", "wslice"),
    ("W.slice:deflate-length-minus-k*64KiB=+1", "deflate stream one byte over the read slice", "wslice"),
    ("shape:entry:type=3:header-bytes=1", "size < 16", "wseq"),
    ("shape:entry:type=3:header-bytes=2", "16 <= size < 2048", "wseq"),
    ("shape:entry:type=3:header-bytes=3", "2048 <= size < 2^18", "wseq"),
    ("shape:entry:type=3:header-bytes=4", "size >= 2^18", "wseq"),
    ("shape:delta:copy-size=0xffff", "copy op of 65535 bytes", "wseq"),
    ("shape:delta:copy-size=0x10000", "copy op of 65536 bytes", "gsub"),
    ("shape:W.seq:kinds=full+ofs", "dulwich wrote OFS deltas", "wseq"),
    ("shape:W.seq:kinds=full+ref", "dulwich wrote REF deltas (delta before its base)", "wseq"),
    ("shape:W.reuse:max-depth=1", "dulwich reused a delta", "wreuse"),
    ("shape:G.chain:max-depth=49", "git chain of depth ~50", "gchain"),
    ("shape:idx-v2:64-bit-table", "git idx with 64-bit entries read by dulwich", "gsub"),
    ("I:write-v2:64-bit-table-entries=2", "dulwich idx with two 64-bit entries", "idx"),
    ("G.thin:sha1:external-bases=1", "git thin pack with an external base", "gthin"),
    ("W.reuse:sha1:git-ref:thin-pack-external-bases=2", "dulwich thin pack from reused deltas", "wreuse"),
    ("git:index-pack--strict:accepted", "C git judged dulwich packs", "wseq"),
    ("git:verify-pack:accepted-idx-v1", "C git read dulwich idx v1", "wseq"),
    ("git:verify-pack:accepted-idx-v2", "C git read dulwich idx v2", "wseq"),
    ("git:cat-file:identical", "C git served contents through dulwich's idx", "wseq"),
    ("git:show-index:agrees-v2", "C git listed dulwich's synthetic idx", "idx"),
]


def run(ctx):
    _bind_rust()
    q = ctx.quick
    J = ctx.jobs * 6
    shared = fresh_dir("claims")
    tasks = []

    sample_src = {}

    def add(kind, items, parts=J):
        sample_src[kind] = list(items)
        items = ctx.order(items)
        for part in split(items, parts):
            tasks.append((kind, part, shared))
        return len(items)

    counts = {}
    # ---- W.seq
    # quick: <=3 / <=2 / <=2 objects x the one-factor-at-a-time configurations;
    # thorough: the same sizes +1; the full configuration product up to the quick sizes +1 for B and C,
    # and for pool A the full product up to 3 objects and the one-factor set for the 5040 4-object orders
    kmax = {"A": 3 if q else 4, "B": 2 if q else 3, "C": 2 if q else 3}
    opts = wseq_options(q)
    lean = wseq_options(True)
    items = []
    for pn in ("A", "B", "C"):
        n = len(pool(pn, "sha1"))
        for idxs in ordered_selections(n, kmax[pn]):
            for hash_name in HASHES:
                for mode, opt in (lean if (pn == "A" and len(idxs) == 4) else opts):
                    items.append((pn, idxs, hash_name, mode, opt))
    if not q:  # every deflate level -1..9 (write_pack_objects, both deltify settings) for <=2 objects of pool A
        for idxs in ordered_selections(len(pool("A", "sha1")), 2):
            for hash_name in HASHES:
                for deltify in (False, True):
                    for level in range(2, 9):
                        items.append(("A", idxs, hash_name, "wpo", (deltify, level)))
    counts["W.seq"] = add("wseq", items, J * 4)
    # ---- W.ofs / W.slice
    counts["W.ofs"] = add("wofs", [(n,) for n in WOFS_FILLERS], 30)
    counts["W.slice"] = add("wslice", [(n, 0, lay) for n in WSLICE_SIZES for lay in ("alone", "then-small", "small-then")], 34)
    # ---- W.reuse
    rk = 2 if q else 3
    items = []
    for kind in ("git-ref", "git-ofs", "dulwich"):
        for hash_name in HASHES:
            for idxs in ordered_selections(6, rk):
                for reuse, deltify, window, thin in itertools.product((False, True), (False, True), (None, 1), (False, True)):
                    items.append((kind, idxs, hash_name, reuse, deltify, window, thin))
    counts["W.reuse"] = add("wreuse", items)
    # ---- I
    ik = 2 if q else 3
    items = [(names, offs, v, h) for names, offs in idx_cases(ik) for v in (1, 2, 3) for h in HASHES]
    counts["I"] = add("idx", items)
    # ---- R
    rn = 3 if q else 4
    items = [(par, order, kinds, h, 6) for n in range(0, rn + 1) for par, order, kinds in rpack_cases(n) for h in HASHES]
    counts["R"] = add("rpack", items)
    # ---- G
    gk = {"A": 3 if q else 4, "B": 2 if q else 3, "C": 2 if q else 3}
    items = []
    for pn in ("A", "B", "C"):
        n = len(pool(pn, "sha1"))
        for sub in subsets(n, gk[pn]):
            for h in HASHES:
                for depth in (1, 50):
                    for dbo in (0, 1):
                        items.append((pn, sub, h, depth, dbo))
    counts["G.sub"] = add("gsub", items)
    nvers = (64,) if q else (8, 33, 64)
    items = [(nv, h, depth, dbo) for nv in nvers for h in HASHES for depth in (1, 10, 50) for dbo in (0, 1)]
    counts["G.chain"] = add("gchain", items, len(items))
    items = [(w, hv, h, dbo) for h in HASHES for w in range(6) for hv in range(-1, w) for dbo in (0, 1)]
    counts["G.thin"] = add("gthin", items, 28)

    # long tasks first within the seed-permuted order keeps the tail short
    tasks = ctx.order(tasks)
    tasks.sort(key=lambda t: {"gchain": 0, "wofs": 1, "wslice": 2}.get(t[0], 3))
    pmap_acc(work, tasks, ctx.acc, jobs=ctx.jobs)

    acc = ctx.acc
    n = acc.n
    required = REQUIRED_CLASSES + ([] if q else [("shape:W.reuse:max-depth=2", "dulwich reused a delta of a delta", "wreuse"),
                                                 ("I:write-v2:64-bit-table-entries=3", "dulwich idx with three 64-bit entries", "idx"),
                                                 ("shape:R:max-depth=3", "reference-built chain of depth 3", "rpack")])
    # vacuity guard: a shape that never occurred is a harness error -- unless SHA-1 cases of the kind
    # that produces it ended in violations (then the violations are the explanation, and they are
    # what must be reported)
    missing = [(c, why, kind) for c, why, kind in required if c not in acc.classes]
    unexplained = [m for m in missing if not n.get("violating_cases:%s:sha1" % m[2])]
    if unexplained:
        raise HarnessError("vacuity guard: classes never observed: %r" % (unexplained,))
    if missing:
        acc.note("vacuity:classes-not-observed-in-a-violating-family", [m[0] for m in missing])
    total = sum(v for k, v in n.items() if k.endswith("_cases"))
    for fam, cnt in counts.items():
        if n.get(fam + "_cases") != cnt:
            raise HarnessError("family %s: %r cases evaluated, %d enumerated" % (fam, n.get(fam + "_cases"), cnt))
    dist = sorted(v for k, v in acc.notes.items() if k.startswith("W.ofs:distance"))
    acc.notes = {k: v for k, v in acc.notes.items() if not k.startswith("W.ofs:distance")}
    acc.note("W.ofs:distances-swept", "%d distinct: %s" % (len(set(dist)), _ranges(dist)))
    ctx.level = "exploration"
    ctx.coverage["outcome_classes"] = dict(sorted(acc.classes.items()))
    ctx.coverage["samples"] = [
        {"family": fam, "position": pos, "case": repr(args)[:300]}
        for fam, lst in sorted(sample_src.items())
        for pos, args in (("first", lst[0]), ("median", lst[len(lst) // 2]), ("last", lst[-1]))
    ][:36]
    ctx.coverage.update(
        evaluations=total,
        distinct_nontrivial=len([c for c in acc.classes if not c.endswith("evaluated")]),
        rule=(
            "E4 bounded-exhaustive.  W.seq: every ordered selection of <=k objects from pools A (10 objects: every type, empty "
            "blob, 15/16 bytes, same bytes as blob and commit, delta pairs; k=%d), B (blobs of 15/16/2047/2048/2^18-1/2^18/2^18+1 "
            "bytes; k=%d), C (65535/65536/65537/131073-byte common runs; k=%d) x {sha1, sha256} x %d write configurations "
            "(write_pack deltify x window; write_pack_objects deltify x level {-1,0,1,9} (thorough: every level -1..9 for <=2 objects of A) with idx v1/v2/v3 from the returned "
            "entries and from PackData.create_index; deltify_pack_objects(window) + write_pack_data in the selected order; "
            "DiskObjectStore.add_objects level x index version).  W.ofs: %d filler sizes sweeping the OFS distance across "
            "127/128, 16511/16512, 2113663/2113664.  W.slice: %d blob sizes x 3 layouts sweeping the deflate length across "
            "65536 and 131072.  W.reuse: 3 delta-packed source stores x every ordered selection of <=%d of 6 versions x "
            "reuse_deltas x deltify x window {None,1} x thin x hashes.  I: every set of <=%d of 7 names (first bytes "
            "00,00,01,7f,fe,ff,ff) x every assignment of offsets from {12,2^31-1,2^31,2^32-1,2^32,2^40} x idx v1/v2/v3 x hashes.  "
            "R: every delta forest on <=%d versions x every pack order x OFS/REF choice, built by the reference writer.  "
            "G: git pack-objects over every subset (A<=%d, B<=%d, C<=%d) x depth {1,50} x delta-base-offset x idx {v2, v1, v2 "
            "with forced 64-bit entries}; %r successive edits x depth {1,10,50}; --thin over every (want, have) of a 6-commit "
            "history.  Every distinct (pack, idx) dulwich wrote goes to git index-pack --strict / verify-pack -v / cat-file "
            "--batch (de-duplicated by checksum).  distinct_nontrivial = observed outcome/shape classes."
            % (kmax["A"], kmax["B"], kmax["C"], len(opts), len(WOFS_FILLERS), len(WSLICE_SIZES), rk, ik, rn, gk["A"], gk["B"], gk["C"], nvers)
        ),
        exhaustive=True,
        bounds={"W.seq.k": kmax, "W.seq.configs": len(opts), "W.reuse.k": rk, "I.k": ik, "R.n": rn, "G.sub.k": gk, "G.chain.versions": list(nvers)},
        family_cases=counts,
        git_calls={k: v for k, v in n.items() if k.startswith("git_")},
        distinct_packs_judged_by_git=n.get("git_index_pack", 0),
        dulwich_reads={"pack_idx_pairs": n.get("read_pairs", 0), "access_orders": n.get("read_access_orders", 0), "idx_files": n.get("idx_reads", 0)},
    )
    ctx.assumptions += [
        "reference parser/writer engines/refmodels/packfile.py written from gitformat-pack(5); every pack it builds and every "
        "reading it makes of a dulwich-written pack is cross-checked against C git 2.39.5 (disagreement = HARNESS-ERROR)",
        "idx v3 is dulwich's own format (git 2.39.5 has none): round trip and internal consistency only, no git oracle",
        "refusals that follow from the format are not violations: idx v1 with 32-byte names or offsets >= 2^32, dulwich's v3 "
        "writer declaring SHA-256 not implemented",
        "dulwich.pack bound to the Rust extension rebuilt from the working tree (apply_delta, create_delta, bisect_find_sha)",
        "which of several identical packs is sent to git depends on worker timing; the set of distinct packs (and every count) does not",
    ]


def _ranges(vals):
    vals = sorted(set(vals))
    out = []
    i = 0
    while i < len(vals):
        j = i
        while j + 1 < len(vals) and vals[j + 1] == vals[j] + 1:
            j += 1
        out.append("%d" % vals[i] if i == j else "%d-%d" % (vals[i], vals[j]))
        i = j + 1
    return ",".join(out)


def replay(ctx, obj):
    _bind_rust()
    return replay_generic(_GuardedCases(), ctx, obj)
