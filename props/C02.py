"""C02 — pack and pack-index round trip, internally consistent, interoperable with C git.

Bounded-exhaustive enumeration (engine E4).  Reference model: engines/refmodels/packfile.py, an
independent pack / idx parser and writer written from gitformat-pack(5).  Families:

  W    dulwich writes a pack and its index; the raw bytes are decoded by the reference parser
       (mapping name -> (type, bytes) equal to the input; trailer, per-entry CRC32, fan-out, offsets,
       64-bit table); dulwich reads them back (Pack[..] in every access order, get_raw, iterobjects,
       PackData.sorted_entries, index.iterentries, Pack.check, containment); C git judges every distinct
       (pack, idx) pair: `index-pack --strict`, `verify-pack -v` against *dulwich's* idx, `cat-file --batch`.
         W.seq    every ordered selection of <=k objects of a pool x {write_pack, write_pack_objects +
                  write_pack_index v1/v2/v3 + PackData.create_index, deltify_pack_objects(window) +
                  write_pack_data in the selected order (OFS deltas after, REF deltas before their base),
                  DiskObjectStore.add_objects(level, index version)} x compression level x SHA-1/SHA-256
         W.ofs    engineered distances between an OFS delta and its base around 127/128 and 16511/16512
         W.slice  deflate streams that end exactly at / around the 64 KiB read-slice boundary
         W.reuse  a store already packed with deltas (by C git and by dulwich) -> write_pack_from_container
                  for every ordered selection x reuse_deltas x deltify x window (+ thin: other_haves)
  I    index only: synthetic entries with names whose first byte is 00/01/7f/fe/ff and offsets around
       2^31 / 2^32 / 2^40; dulwich writer -> reference parser + `git show-index`; reference writer ->
       dulwich reader (lookups, misses, prefixes, iteration).
  R    packs built by the reference writer: every delta forest on <=k versions of a blob x every pack
       order x OFS/REF choice (delta-of-delta through both kinds, REF to a later entry); validated by
       C git, read by dulwich.
  G    packs written by `git pack-objects` (every subset of a pool x --depth x --delta-base-offset x
       --index-version 1 / 2 / 2 with forced 64-bit entries; 64 successive edits of one blob with depth
       1/10/50; --thin completed by DiskObjectStore.add_thin_pack) -> dulwich reads (random access in
       several orders incl. every single first access, iteration, check, re-index).

Violation keys: <phase>:<site>:<predicate>[@<input class>] — phase write/read/git, site the dulwich
API (or on-disk structure) whose output is wrong, predicate what is wrong with it, input class a
fixed predicate of the object/pack concerned (ofs-delta, ref-delta, sha256, ...), never the input.
"""

from __future__ import annotations

import hashlib
import itertools
import os
import shutil
import traceback
import warnings

from engines.common import Acc, HarnessError, fresh_dir, git, pmap_acc, replay_generic, rmtree, rp, split
from engines.refmodels import packfile as R

warnings.simplefilter("ignore", ResourceWarning)

LEVELS = (-1, 0, 1, 9)
WINDOWS = (None, 1, 10)


# --------------------------------------------------------------------------- dulwich access


def _P():
    from dulwich import pack as P

    return P


def _fmt(hash_name):
    from dulwich.object_format import SHA1, SHA256

    return SHA1 if hash_name == "sha1" else SHA256


def _shafile(type_num, data, hash_name):
    from dulwich.objects import ShaFile

    return ShaFile.from_raw_string(type_num, data, object_format=_fmt(hash_name))


def _exc_site(e):
    site = None
    for fr in traceback.extract_tb(e.__traceback__):
        if "/dulwich/" in fr.filename:
            site = fr.name
    return site or "?"


def _exc_name(e):
    t = type(e)
    return t.__name__ if t.__module__ in ("builtins", "dulwich.errors", "dulwich.pack") else "%s.%s" % (t.__module__, t.__name__)


def _short(b, n=24):
    b = bytes(b)
    return repr(b) if len(b) <= n else "%r..(%d bytes)" % (b[:10], len(b))


# --------------------------------------------------------------------------- object pools

_POOLS = {}


def _stream(n, salt=b"S"):
    """Compressible deterministic text."""
    out = bytearray()
    i = 0
    while len(out) < n:
        out += b"%s line %06d %s\n" % (salt, i, hashlib.sha1(salt + b"%d" % (i // 7)).hexdigest()[:12].encode())
        i += 1
    return bytes(out[:n])


def _noise(n, salt=b"X"):
    """Incompressible deterministic bytes."""
    out = bytearray()
    i = 0
    while len(out) < n:
        out += hashlib.sha256(salt + b"%d" % i).digest()
        i += 1
    return bytes(out[:n])


def _tree(entries, hash_name):
    """entries: [(mode, name, type, data)] -> canonical tree bytes (names sorted by the caller)."""
    out = bytearray()
    for mode, name, t, d in entries:
        out += b"%o %s\x00" % (mode, name) + R.object_name(t, d, hash_name)
    return bytes(out)


def _commit(tree, parents, msg, hash_name):
    out = b"tree " + R.object_name(2, tree, hash_name).hex().encode() + b"\n"
    for p in parents:
        out += b"parent " + R.object_name(1, p, hash_name).hex().encode() + b"\n"
    out += b"author A U Thor <a@example.com> 1000000000 +0000\ncommitter C O Mitter <c@example.com> 1000000001 +0100\n\n" + msg
    return out


def pool(name, hash_name):
    """-> list of (type_num, bytes).  Deterministic; trees/commits/tags refer to pool members by the
    names of the selected hash."""
    key = (name, hash_name)
    if key in _POOLS:
        return _POOLS[key]
    if name == "A":  # every type, empty blob, 15/16-byte sizes, duplicate content across types, delta pairs
        b0 = b""
        b15 = b"fifteen bytes.\n"
        b16 = b"fifteen bytes..\n"
        b16x = b"0123456789abcdef"
        t1 = _tree([(0o100644, b"a", 3, b15), (0o100755, b"b", 3, b16)], hash_name)
        t2 = _tree([(0o100644, b"a", 3, b15), (0o100755, b"b", 3, b16), (0o100644, b"c", 3, b0)], hash_name)
        c1 = _commit(t1, [], b"first\n", hash_name)
        c2 = _commit(t2, [c1], b"second\n", hash_name)
        tag = (b"object " + R.object_name(1, c1, hash_name).hex().encode() + b"\ntype commit\ntag v1\n"
               b"tagger T Agger <t@example.com> 1000000002 -0130\n\nrelease\n")
        objs = [(3, b0), (3, b15), (3, b16), (3, b16x), (2, t1), (2, t2), (1, c1), (1, c2), (4, tag), (3, c1)]
    elif name == "B":  # size-varint boundaries of the entry header: 4 bits, 4+7 bits, 4+7+7 bits
        s = _stream(262145)
        objs = [(3, s[:n]) for n in (15, 16, 2047, 2048, 262143, 262144, 262145)]
    elif name == "C":  # 64 KiB copy-op limit: long common runs of incompressible bytes
        x = _noise(70000)
        objs = [(3, x), (3, b"head65535:" + x[:65535] + b":tail"), (3, b"head65536:" + x[:65536] + b":tail"),
                (3, b"head65537:" + x[:65537] + b":tail"), (3, x[:65536] + x[:65537])]
    elif name == "V":  # 64 successive edits of one blob (equal sizes: one 64-byte block replaced per step)
        nb = 100
        blk = lambda i, j: (hashlib.sha1(b"%d/%d" % (i, j)).hexdigest() * 2)[:63].encode() + b"\n"
        blocks = [blk(0, j) for j in range(nb)]
        objs = []
        for i in range(64):
            blocks[i % nb] = blk(i + 1, i % nb)
            objs.append((3, b"".join(blocks)))
    elif name == "E":  # 6 small versions of one blob (reference-built delta forests, reuse family)
        base = _stream(600, b"E")
        objs = [(3, base[:100 * k] + b"<edit %d>" % k + base[100 * k:]) for k in range(6)]
    else:
        raise HarnessError("unknown pool " + name)
    names = [R.object_name(t, d, hash_name) for t, d in objs]
    if len(set(names)) != len(names):
        raise HarnessError("pool %s has duplicate objects" % name)
    _POOLS[key] = objs
    return objs


ALL_POOLS = ("A", "B", "C", "V", "E")


def _names(objs, hash_name):
    return [R.object_name(t, d, hash_name) for t, d in objs]


# --------------------------------------------------------------------------- per-process C git state

_GIT = {}


def _gitstate(hash_name):
    """Per worker process and hash: repo 'full' holding every pool object (so that --strict's link
    check and pack-objects find them; C git itself hashed and fsck'ed them), repo 'empty' for
    cat-file on one installed pack at a time."""
    key = (os.getpid(), hash_name)
    st = _GIT.get(key)
    if st is not None:
        return st
    full = fresh_dir("gfull")
    empty = fresh_dir("gempty")
    fmtarg = ["--object-format=" + hash_name]
    git(["init", "-q", "--bare"] + fmtarg + [full])
    git(["init", "-q", "--bare"] + fmtarg + [empty])
    w = R.PackWriter(hash_name, level=1)
    seen = set()
    want = {}
    for pn in ALL_POOLS:
        for t, d in pool(pn, hash_name):
            n = R.object_name(t, d, hash_name)
            if n not in seen:
                seen.add(n)
                w.add_full(t, d)
                want[n.hex()] = (t, len(d))
    p = git(["unpack-objects", "-q", "--strict"], cwd=full, input=w.finish(), check=False)
    if p.returncode != 0:
        raise HarnessError("C git refuses the object pools (%s): %s" % (hash_name, p.stderr[-500:]))
    out = git(["cat-file", "--batch-check", "--batch-all-objects"], cwd=full).stdout
    got = {}
    for line in out.splitlines():
        h, t, s = line.split()
        got[h.decode()] = (R.TYPE_NUMS[t], int(s))
    if got != want:
        raise HarnessError("ORACLE-DISAGREEMENT: C git names the pool objects differently from the reference model")
    st = {"full": full, "empty": empty, "n": 0}
    _GIT[key] = st
    return st


def _claim(shared, token):
    """True for exactly one caller per token over all workers of a run (O_EXCL on tmpfs).
    shared=None (replay): always True."""
    if shared is None:
        return True
    try:
        fd = os.open(os.path.join(shared, token), os.O_CREAT | os.O_EXCL | os.O_WRONLY, 0o600)
    except FileExistsError:
        return False
    os.close(fd)
    return True


# --------------------------------------------------------------------------- oracle: the pack bytes


_PACK_SITE = {
    "pack-trailer-mismatch": "PackChunkGenerator:trailer",
    "pack-bad-signature": "pack_header_chunks",
    "pack-bad-version": "pack_header_chunks",
    "pack-too-short": "pack_header_chunks",
    "pack-fewer-entries-than-declared": "pack_header_chunks:count",
    "pack-garbage-after-last-entry": "pack_header_chunks:count",
    "entry-header-truncated": "pack_object_header:size-varint",
    "entry-size-mismatch": "pack_object_header:size-varint",
    "entry-bad-type": "pack_object_header:type",
    "entry-ofs-truncated": "pack_object_header:ofs-varint",
    "entry-ofs-out-of-range": "pack_object_header:ofs-varint",
    "ofs-base-not-an-entry-start": "PackChunkGenerator:ofs-distance",
    "entry-ref-truncated": "pack_object_header:ref-base",
    "delta-base-unresolvable": "PackChunkGenerator:ref-base",
    "zlib-truncated": "pack_object_chunks:deflate",
    "zlib-error": "pack_object_chunks:deflate",
}


def _hcls(hash_name):
    return "" if hash_name == "sha1" else "@sha256"


def _entry_class(r, hash_name):
    c = {"full": "full", "ofs": "ofs-delta", "ref": "ref-delta", "external": "external"}[r.kind]
    if r.depth > 1:
        c += "-of-delta"
    return "@" + c + ("/sha256" if hash_name != "sha1" else "")


def oracle_pack(acc, fam, data, exp, hash_name, rpd, writer="dulwich", external=None, ordered=True):
    """Reference-parse `data`; the resolved mapping must equal exp (list of (type, bytes) — in pack
    order when ordered).  -> (pinfo, resolved) or None when the pack is unusable."""
    try:
        pinfo = R.parse_pack(data, hash_name)
        res = R.resolve_pack(pinfo, external)
    except R.FormatError as e:
        if writer != "dulwich":
            raise HarnessError("reference parser rejects a pack written by %s: %s" % (writer, e))
        site = _PACK_SITE.get(e.code, "create_delta" if e.code.startswith("delta-") else "pack")
        acc.violation("write:%s:%s%s" % (site, e.code, _hcls(hash_name)), "%s: pack of %d bytes: %s" % (fam, len(data), e), rpd)
        return None
    got = [(r.type, r.data) for r in res]
    bad = None
    if ordered:
        if got != list(exp):
            bad = "objects-or-order-differ-from-input"
    if sorted(got) != sorted(exp):
        gs, es = set(got), set(exp)
        if len(got) != len(exp) and gs == es:
            bad = "object-duplicated-or-dropped"
        elif es - gs and not gs - es:
            bad = "object-missing"
        elif {d for _, d in got} == {d for _, d in exp}:
            bad = "type-wrong"
        else:
            bad = "content-wrong"
    if bad:
        if writer != "dulwich":
            raise HarnessError("pack written by %s does not hold the requested objects (%s)" % (writer, bad))
        acc.violation("write:pack:%s%s" % (bad, _hcls(hash_name)),
                      "%s: wrote %s, pack holds %s" % (fam, [(t, _short(d)) for t, d in exp], [(t, _short(d)) for t, d in got]), rpd)
        return None
    # structural classes (vacuity guard)
    kinds = "+".join(sorted({r.kind for r in res})) or "empty"
    acc.outcome("shape:%s:kinds=%s" % (fam, kinds))
    if res:
        acc.outcome("shape:%s:max-depth=%d" % (fam, min(max(r.depth for r in res), 50)))
    for e in pinfo.entries:
        acc.outcome("shape:entry:type=%d:header-bytes=%d" % (e.type, e.header_len))
        if not e.canonical_header:
            acc.outcome("shape:entry:non-canonical-size-header")
        if e.type == R.OFS_DELTA:
            acc.outcome("shape:entry:ofs-bytes=%d" % e.ofs_len)
            d = e.offset - e.base_offset
            if d in (127, 128, 16511, 16512, 2113663, 2113664):
                acc.outcome("shape:entry:ofs-distance=%d" % d)
        if e.type in (R.OFS_DELTA, R.REF_DELTA):
            for kind, off, sz in R.delta_ops(e.payload):
                if kind == "copy" and sz >= 0xFFFF:
                    acc.outcome("shape:delta:copy-size=%#x" % sz)
        if e.zlen % 65536 in (0, 1, 65535):
            acc.outcome("shape:entry:deflate-length-mod-64KiB=%d" % (e.zlen % 65536))
    return pinfo, res


# --------------------------------------------------------------------------- oracle: the idx bytes


def oracle_idx(acc, fam, pinfo, res, idxdata, version, hash_name, rpd, site, writer="dulwich"):
    """Reference-parse the index and check it against the pack.  -> IdxInfo or None."""
    try:
        iinfo = R.parse_idx(idxdata, hash_name)
        problems = R.check_pair(pinfo, res, iinfo)
        if iinfo.version != version:
            problems.insert(0, "version-is-%d" % iinfo.version)
    except R.FormatError as e:
        iinfo = None
        problems = [e.code]
    if problems and writer != "dulwich":
        raise HarnessError("reference parser finds fault with an index written by %s: %s" % (writer, problems))
    for pr in problems:
        acc.violation("write:%s:idx-v%d:%s%s" % (site, version, pr, _hcls(hash_name)),
                      "%s: index of %d bytes for a pack of %d objects: %s" % (fam, len(idxdata), pinfo.count, pr), rpd)
    if problems:
        return None
    if iinfo.large_table:
        acc.outcome("shape:idx-v%d:64-bit-table" % version)
    return iinfo


# --------------------------------------------------------------------------- oracle: dulwich reads


def _perms(ids, cap_all=4):
    """Access orders: every permutation for <=cap_all objects, else a fixed family."""
    if len(ids) <= cap_all:
        return list(itertools.permutations(ids))
    return [tuple(ids), tuple(reversed(ids))]


def oracle_read(acc, fam, basename, res, ientries, version, hash_name, rpd, orders=None, resolve_ext_ref=None,
                singles=False, check=True):
    """Everything dulwich can tell about <basename>.pack/.idx must equal the reference reading.
    res: reference Resolved list (pack order); ientries: reference idx entries (name, offset, crc)."""
    P = _P()
    fmt = _fmt(hash_name)
    want = {r.name: r for r in res}
    names = sorted(want)
    hexes = [n.hex().encode() for n in names]
    hc = _hcls(hash_name)
    vio = lambda key, msg: acc.violation(key, "%s idx-v%d: %s" % (fam, version, msg), rpd)
    kw = {"resolve_ext_ref": resolve_ext_ref} if resolve_ext_ref else {}

    def cls(name):
        return _entry_class(want[name], hash_name)

    # -- random access in every order (each on a fresh Pack: the first access fills the offset cache)
    orders = orders if orders is not None else _perms(names)
    if singles:
        orders = list(orders) + [(n,) for n in names]
    for order in orders:
        p = P.Pack(basename, object_format=fmt, **kw)
        try:
            for rnd in (0, 1):  # second round is served from Pack.data._offset_cache where filled
                for n in order:
                    r = want[n]
                    try:
                        got = p.get_raw(n.hex().encode() if rnd == 0 else n)
                    except Exception as e:
                        vio("read:Pack.get_raw:raises-%s%s" % (_exc_name(e), cls(n)),
                            "object %s (%s, depth %d) in order %s round %d: %s in %s: %s"
                            % (n.hex()[:12], r.kind, r.depth, [x.hex()[:6] for x in order], rnd, _exc_name(e), _exc_site(e), str(e)[:120]))
                        continue
                    if got != (r.type, r.data):
                        what = "type-wrong" if got[1] == r.data else ("another-objects-content" if any(got[1] == o.data for o in res) else "content-wrong")
                        vio("read:Pack.get_raw:%s%s%s" % (what, ":cached-round" if rnd else "", cls(n)),
                            "object %s (%s, depth %d) in order %s round %d: got type %r %s, want type %d %s"
                            % (n.hex()[:12], r.kind, r.depth, [x.hex()[:6] for x in order], rnd, got[0], _short(got[1]), r.type, _short(r.data)))
            acc.count("read_access_orders")
        finally:
            p.close()

    p = P.Pack(basename, object_format=fmt, **kw)
    try:
        # -- container protocol
        try:
            n_ = len(p)
            ids = list(p)
            if n_ != len(names) or ids != hexes:
                vio("read:Pack.__iter__:ids-differ%s" % hc, "len=%d ids=%r want %r" % (n_, [i[:8] for i in ids], [h[:8] for h in hexes]))
        except Exception as e:
            vio("read:Pack.__iter__:raises-%s%s" % (_exc_name(e), hc), "%s: %s" % (_exc_site(e), str(e)[:120]))
        for n, h in zip(names, hexes):
            r = want[n]
            try:
                if h not in p or n not in p:
                    vio("read:Pack.__contains__:present-object-not-found%s" % hc, h.decode())
                o = p[h]
                if (o.type_num, o.as_raw_string()) != (r.type, r.data):
                    vio("read:Pack.__getitem__:object-differs%s" % cls(n), "%s: got (%d, %s)" % (h.decode()[:12], o.type_num, _short(o.as_raw_string())))
                elif o.get_id(fmt) != h:
                    vio("read:Pack.__getitem__:id-differs%s" % cls(n), "%s: got %r" % (h.decode()[:12], o.get_id(fmt)))
            except Exception as e:
                vio("read:Pack.__getitem__:raises-%s%s" % (_exc_name(e), cls(n)), "%s: %s in %s: %s" % (h.decode()[:12], _exc_name(e), _exc_site(e), str(e)[:120]))
        for miss in _misses(names, hash_name):
            try:
                if miss in p or miss.hex().encode() in p:
                    vio("read:Pack.__contains__:absent-object-found%s" % hc, miss.hex())
                try:
                    p.get_raw(miss)
                    vio("read:Pack.get_raw:absent-object-returned%s" % hc, miss.hex())
                except KeyError:
                    pass
            except Exception as e:
                vio("read:Pack.__contains__:raises-%s%s" % (_exc_name(e), hc), "absent %s: %s: %s" % (miss.hex()[:12], _exc_site(e), str(e)[:120]))
        # -- sequential iteration
        try:
            got = sorted((o.type_num, o.as_raw_string()) for o in p.iterobjects())
            if got != sorted((r.type, r.data) for r in res):
                vio("read:Pack.iterobjects:objects-differ%s" % hc, "got %s" % [(t, _short(d)) for t, d in got])
        except Exception as e:
            vio("read:Pack.iterobjects:raises-%s%s" % (_exc_name(e), hc), "%s in %s: %s" % (_exc_name(e), _exc_site(e), str(e)[:120]))
        # -- entries from the data and from the index
        ref_sorted = sorted(ientries)
        try:
            got = list(p.data.sorted_entries(**kw))
            if [tuple(g) for g in got] != [(n, o, c) for n, o, c in ref_sorted]:
                vio("read:PackData.sorted_entries:%s%s" % (_entries_diff(got, ref_sorted), hc), "got %s" % _fmt_entries(got))
        except Exception as e:
            vio("read:PackData.sorted_entries:raises-%s%s" % (_exc_name(e), hc), "%s in %s: %s" % (_exc_name(e), _exc_site(e), str(e)[:120]))
        try:
            got = list(p.index.iterentries())
            wantidx = [(n, o, (c if version >= 2 else None)) for n, o, c in ref_sorted]
            if [tuple(g) for g in got] != wantidx:
                vio("read:PackIndex%d.iterentries:%s%s" % (version, _entries_diff(got, wantidx), hc), "got %s" % _fmt_entries(got))
            for n, o, _ in ref_sorted:
                if p.index.object_offset(n) != o or p.index.object_offset(n.hex().encode()) != o:
                    vio("read:PackIndex%d.object_offset:offset-wrong%s" % (version, hc), "%s -> %r, want %d" % (n.hex()[:12], p.index.object_offset(n), o))
            if p.index.get_pack_checksum() != p.data.get_stored_checksum():
                vio("read:PackIndex%d.get_pack_checksum:differs-from-pack-trailer%s" % (version, hc), "")
        except Exception as e:
            vio("read:PackIndex%d:raises-%s%s" % (version, _exc_name(e), hc), "%s in %s: %s" % (_exc_name(e), _exc_site(e), str(e)[:120]))
        # -- integrity check
        if check:
            try:
                p.check()
            except Exception as e:
                vio("read:Pack.check:raises-%s%s" % (_exc_name(e), hc), "%s in %s: %s" % (_exc_name(e), _exc_site(e), str(e)[:120]))
        acc.count("read_pairs")
    finally:
        p.close()


def _ref_entries(pinfo, res):
    """(name, offset, crc32) of every entry as the reference parser reads the pack."""
    return sorted((r.name, e.offset, e.crc32) for r, e in zip(res, pinfo.entries))


def _misses(names, hash_name):
    hl = R.hash_len(hash_name)
    out = [b"\x00" * hl, b"\xff" * hl]
    for n in names[:2]:
        out.append(n[:-1] + bytes([n[-1] ^ 1]))
        out.append(bytes([n[0]]) + b"\x00" * (hl - 1))
        out.append(bytes([n[0]]) + b"\xff" * (hl - 1))
    return [m for m in out if m not in set(names)]


def _entries_diff(got, want):
    got = [tuple(g) for g in got]
    if [g[0] for g in got] != [w[0] for w in want]:
        return "names-differ"
    if [g[1] for g in got] != [w[1] for w in want]:
        return "offset-wrong"
    return "crc32-wrong"


def _fmt_entries(es):
    return [(bytes(e[0]).hex()[:10], e[1], e[2]) for e in es][:6]


# --------------------------------------------------------------------------- oracle: C git


def oracle_git_pack(acc, fam, packpath, pinfo, res, hash_name, rpd, shared):
    """`git index-pack --strict` on a distinct pack: accepted, and the idx git derives lists the
    same (name, offset, crc) as the reference parser (else ORACLE-DISAGREEMENT)."""
    if not _claim(shared, "P-" + hash_name + "-" + pinfo.trailer.hex()):
        return
    st = _gitstate(hash_name)
    out = os.path.join(os.path.dirname(packpath), "git-%d.idx" % os.getpid())
    p = git(["index-pack", "--strict", "-o", out, packpath], cwd=st["full"], check=False)
    acc.count("git_index_pack")
    if p.returncode != 0:
        acc.outcome("git:index-pack--strict:rejected")
        acc.violation("git:index-pack--strict:rejects-dulwich-pack%s" % _hcls(hash_name),
                      "%s: pack %s: %s" % (fam, pinfo.trailer.hex()[:12], p.stderr.decode("latin1").strip()[-200:]), rpd)
        return
    with open(out, "rb") as f:
        gi = R.parse_idx(f.read(), hash_name)
    os.unlink(out)
    for ext in (".rev",):
        if os.path.exists(out[:-4] + ext):
            os.unlink(out[:-4] + ext)
    mine = sorted((r.name, e.offset, e.crc32) for r, e in zip(res, pinfo.entries))
    if gi.problems or sorted(gi.entries) != mine or gi.pack_checksum != pinfo.trailer:
        raise HarnessError("ORACLE-DISAGREEMENT: git index-pack and the reference parser read pack %s differently"
                           % pinfo.trailer.hex())
    acc.outcome("git:index-pack--strict:accepted")


def oracle_git_pair(acc, fam, basename, pinfo, res, iinfo, hash_name, rpd, shared):
    """`git verify-pack -v` against dulwich's idx and `git cat-file --batch` through it."""
    if iinfo.version > 2:
        return  # not a git format
    if not _claim(shared, "I-" + hash_name + "-" + pinfo.trailer.hex() + "-" + iinfo.idx_checksum.hex()):
        return
    st = _gitstate(hash_name)
    hc = _hcls(hash_name)
    p = git(["verify-pack", "-v", basename + ".idx"], cwd=st["full"], check=False)
    acc.count("git_verify_pack")
    if p.returncode != 0:
        acc.outcome("git:verify-pack:rejected")
        acc.violation("git:verify-pack:rejects-dulwich-idx-v%d%s" % (iinfo.version, hc),
                      "%s: %s" % (fam, (p.stderr + p.stdout[-200:]).decode("latin1").strip()[-300:]), rpd)
        return
    listing = sorted((h, t, s, sp, o) for h, t, s, sp, o, _, _ in R.parse_verify_pack(p.stdout))
    mine = sorted((r.name.hex(), R.TYPE_NAMES[r.type], e.size, e.end - e.offset, e.offset) for r, e in zip(res, pinfo.entries))
    if listing != mine:
        raise HarnessError("ORACLE-DISAGREEMENT: git verify-pack lists %r, reference parser %r" % (listing[:3], mine[:3]))
    acc.outcome("git:verify-pack:accepted-idx-v%d" % iinfo.version)
    # cat-file through this pack alone
    pd = os.path.join(st["empty"], "objects", "pack")
    st["n"] += 1
    tgt = os.path.join(pd, "pack-%040d" % st["n"])
    os.link(basename + ".pack", tgt + ".pack")
    os.link(basename + ".idx", tgt + ".idx")
    try:
        names = sorted(r.name for r in res)
        inp = b"".join(n.hex().encode() + b"\n" for n in names)
        p = git(["cat-file", "--batch"], cwd=st["empty"], input=inp, check=False)
        acc.count("git_cat_file")
        want = b"".join(b"%s %s %d\n%s\n" % (r.name.hex().encode(), R.TYPE_NAMES[r.type], len(r.data), r.data)
                        for r in sorted(res, key=lambda r: r.name))
        if p.returncode != 0 or p.stdout != want:
            acc.violation("git:cat-file:content-differs-through-dulwich-idx-v%d%s" % (iinfo.version, hc),
                          "%s: rc=%d %s" % (fam, p.returncode, p.stderr.decode("latin1")[-200:]), rpd)
        else:
            acc.outcome("git:cat-file:identical")
    finally:
        os.unlink(tgt + ".pack")
        os.unlink(tgt + ".idx")


# --------------------------------------------------------------------------- W.seq


def _objs(pool_name, idxs, hash_name):
    pl = pool(pool_name, hash_name)
    return [pl[i] for i in idxs]


def _write_idx_variants(acc, fam, d, packpath, entries, checksum, hash_name, rpd, api):
    """idx v1/v2/v3 from the entries the writer returned (write_pack_index) and from re-indexing the
    pack (PackData.create_index).  -> [(label, version, basename)] of usable pairs (hard links)."""
    P = _P()
    fmt = _fmt(hash_name)
    out = []
    seen = {}
    for version in (1, 2, 3):
        for how in ("entries", "reindex"):
            base = os.path.join(d, "%s%d" % (how[0], version))
            try:
                if how == "entries":
                    if entries is None:
                        continue
                    el = sorted((k, v[0], v[1]) for k, v in entries.items())
                    with open(base + ".idx", "wb") as f:
                        P.write_pack_index(f, el, checksum, version=version)
                    site = "write_pack_index"
                else:
                    pd = P.PackData(packpath, object_format=fmt)
                    try:
                        pd.create_index(base + ".idx", version=version, **({"hash_format": 2} if version == 3 and hash_name != "sha1" else {}))
                    finally:
                        pd.close()
                    site = "PackData.create_index"
            except Exception as e:
                legal = _idx_legal(version, hash_name)
                acc.outcome("W:idx-v%d:%s:%s:refused-%s%s" % (version, hash_name, how, _exc_name(e), "" if legal else "(format cannot hold it)"))
                if legal:
                    acc.violation("write:%s:idx-v%d:raises-%s%s" % (site, version, _exc_name(e), _hcls(hash_name)),
                                  "%s via %s: %s in %s: %s" % (fam, api, _exc_name(e), _exc_site(e), str(e)[:160]), rpd)
                if os.path.exists(base + ".idx"):
                    os.unlink(base + ".idx")
                continue
            with open(base + ".idx", "rb") as f:
                data = f.read()
            if data in seen:  # byte-identical to an index already taken: nothing new to read
                acc.outcome("W:idx-v%d:reindex-bytes-equal-entries-bytes" % version)
                os.unlink(base + ".idx")
                continue
            seen[data] = 1
            os.link(packpath, base + ".pack")
            out.append((site, version, base, data))
    return out


def _idx_legal(version, hash_name):
    """v1 stores 20-byte names only; dulwich's v3 writer declares SHA-256 not implemented
    (NotImplementedError) — both are refusals, not round-trip failures."""
    return hash_name == "sha1" or version == 2


def case_wseq(acc, pool_name, idxs, hash_name, mode, opt, shared=None):
    """One W.seq case.  mode/opt:
       wp    (deltify, window)          write_pack, level -1, default index
       wpo   (deltify, level)           write_pack_objects + idx v1/v2/v3 (entries + reindex)
       wpd   (window, level)            deltify_pack_objects(window) -> records in input order -> write_pack_data
       store (level, index_version)     DiskObjectStore.add_objects
    """
    P = _P()
    fmt = _fmt(hash_name)
    rpd = rp(case_wseq, pool_name, list(idxs), hash_name, mode, list(opt))
    exp = _objs(pool_name, idxs, hash_name)
    objs = [_shafile(t, d, hash_name) for t, d in exp]
    fam = "W.seq/%s%s/%s%r" % (pool_name, list(idxs), mode, tuple(opt))
    d = fresh_dir("w")
    acc.count("W.seq_cases")
    ordered = True
    try:
        entries = checksum = None
        variants = None
        try:
            if mode == "wp":
                deltify, window = opt
                base = os.path.join(d, "p")
                checksum, _idxsum = P.write_pack(base, [(o, None) for o in objs], fmt, deltify=deltify, delta_window_size=window)
                packpath = base + ".pack"
                ordered = not deltify
                with open(base + ".idx", "rb") as f:
                    variants = [("write_pack", P.DEFAULT_PACK_INDEX_VERSION, base, f.read())]
            elif mode == "wpo":
                deltify, level = opt
                packpath = os.path.join(d, "p.pack")
                with open(packpath, "wb") as f:
                    entries, checksum = P.write_pack_objects(f.write, [(o, None) for o in objs] if deltify else list(objs), fmt,
                                                             deltify=deltify, compression_level=level)
                ordered = not deltify
            elif mode == "wpd":
                window, level = opt
                recs = list(P.deltify_pack_objects(iter([(o, None) for o in objs]), window_size=window))
                pos = {o.sha().digest(): i for i, o in enumerate(objs)}
                recs.sort(key=lambda u: pos[u.sha()])
                packpath = os.path.join(d, "p.pack")
                with open(packpath, "wb") as f:
                    entries, checksum = P.write_pack_data(f.write, iter(recs), num_records=len(recs), compression_level=level,
                                                          object_format=fmt)
            elif mode == "store":
                from dulwich.object_store import DiskObjectStore

                level, iv = opt
                sd = os.path.join(d, "objects")
                os.makedirs(os.path.join(sd, "pack"))
                store = DiskObjectStore(sd, pack_compression_level=level, pack_index_version=iv, object_format=fmt)
                try:
                    pk = store.add_objects([(o, None) for o in objs])
                    if pk is None:
                        if objs:
                            acc.violation("write:DiskObjectStore.add_objects:no-pack-written%s" % _hcls(hash_name), fam, rpd)
                        else:
                            acc.outcome("W:store:empty-set-writes-no-pack")
                        return
                    base = pk._basename
                    # the store itself must serve the objects
                    for (t, dt), n in zip(exp, _names(exp, hash_name)):
                        got = store.get_raw(n.hex().encode())
                        if got != (t, dt):
                            acc.violation("read:DiskObjectStore.get_raw:object-differs%s" % _hcls(hash_name), "%s %s" % (fam, n.hex()[:12]), rpd)
                finally:
                    store.close()
                packpath = base + ".pack"
                with open(base + ".idx", "rb") as f:
                    variants = [("DiskObjectStore._complete_pack", iv or P.DEFAULT_PACK_INDEX_VERSION, base, f.read())]
            else:
                raise HarnessError("mode " + mode)
        except HarnessError:
            raise
        except Exception as e:
            legal = not (mode == "store" and hash_name != "sha1" and opt[1] in (1, 3))
            acc.outcome("W:%s:%s:writer-raises-%s%s" % (mode, hash_name, _exc_name(e), "" if legal else "(format cannot hold it)"))
            if legal:
                acc.violation("write:%s:raises-%s:%s%s" % (_API[mode], _exc_name(e), _exc_site(e), _hcls(hash_name)),
                              "%s: %s in %s: %s" % (fam, _exc_name(e), _exc_site(e), str(e)[:160]), rpd)
            return
        with open(packpath, "rb") as f:
            data = f.read()
        pr = oracle_pack(acc, "W.seq", data, exp, hash_name, rpd, ordered=ordered)
        if pr is None:
            return
        pinfo, res = pr
        if checksum is not None and checksum != pinfo.trailer:
            acc.violation("write:%s:returned-checksum-differs-from-trailer%s" % (_API[mode], _hcls(hash_name)), fam, rpd)
        if entries is not None:
            mine = {r.name: (e.offset, e.crc32) for r, e in zip(res, pinfo.entries)}
            if dict(entries) != mine:
                what = "names-wrong" if set(entries) != set(mine) else ("offset-wrong" if {k: v[0] for k, v in entries.items()} != {k: v[0] for k, v in mine.items()} else "crc32-wrong")
                acc.violation("write:%s:returned-entries:%s%s" % (_API[mode], what, _hcls(hash_name)),
                              "%s: returned %s, pack has %s" % (fam, _fmt_entries([(k,) + tuple(v) for k, v in sorted(entries.items())]),
                                                                _fmt_entries([(k,) + v for k, v in sorted(mine.items())])), rpd)
                entries = None
        if variants is None:
            variants = _write_idx_variants(acc, fam, d, packpath, entries, checksum, hash_name, rpd, _API[mode])
        oracle_git_pack(acc, fam, packpath, pinfo, res, hash_name, rpd, shared)
        for site, version, base, idxdata in variants:
            iinfo = oracle_idx(acc, fam, pinfo, res, idxdata, version, hash_name, rpd, site)
            if iinfo is None:
                continue
            oracle_read(acc, fam, base, res, _ref_entries(pinfo, res), version, hash_name, rpd)
            oracle_git_pair(acc, fam, base, pinfo, res, iinfo, hash_name, rpd, shared)
        acc.outcome("W:%s:%s:round-trip-evaluated" % (mode, hash_name))
    finally:
        rmtree(d)


_API = {"wp": "write_pack", "wpo": "write_pack_objects", "wpd": "write_pack_data", "store": "DiskObjectStore.add_objects"}


def wseq_options(quick):
    out = []
    for deltify, window in [(False, None)] + [(True, w) for w in WINDOWS]:
        out.append(("wp", (deltify, window)))
    for deltify in (False, True):
        for level in LEVELS:
            out.append(("wpo", (deltify, level)))
    for window in WINDOWS:
        for level in LEVELS:
            out.append(("wpd", (window, level)))
    for level in LEVELS:
        for iv in (None, 1, 2, 3):
            out.append(("store", (level, iv)))
    return out


def ordered_selections(n, k):
    for r in range(0, k + 1):
        yield from itertools.permutations(range(n), r)


# --------------------------------------------------------------------------- task plumbing


def work(task):
    import signal

    signal.signal(signal.SIGTERM, signal.SIG_DFL)
    kind, items, params = task
    acc = Acc()
    if kind == "wseq":
        shared = params
        for pool_name, idxs, hash_name, mode, opt in items:
            case_wseq(acc, pool_name, idxs, hash_name, mode, opt, shared)
    else:
        raise AssertionError(kind)
    return acc


def _bind_rust():
    """The Rust extension must be the one rebuilt from the working tree, and dulwich.pack must use it."""
    import sys

    from engines import common

    paths = common.preload_rust()
    P = _P()
    ext = sys.modules.get("dulwich._pack")
    if ext is None or getattr(ext, "__file__", None) != paths["_pack"]:
        raise HarnessError("dulwich._pack is not the extension rebuilt from the working tree (%r)" % getattr(ext, "__file__", None))
    if P.apply_delta is not ext.apply_delta or P.bisect_find_sha is not ext.bisect_find_sha:
        raise HarnessError("dulwich.pack is not bound to the rebuilt Rust extension")
    return paths


def run(ctx):

    _bind_rust()
    q = ctx.quick
    J = ctx.jobs * 6
    shared = fresh_dir("claims")
    tasks = []
    # W.seq
    items = []
    kmax = {"A": 3 if q else 4, "B": 2 if q else 3, "C": 2 if q else 3}
    for pn in ("A", "B", "C"):
        n = len(pool(pn, "sha1"))
        for idxs in ordered_selections(n, kmax[pn]):
            for hash_name in ("sha1", "sha256"):
                for mode, opt in wseq_options(q):
                    items.append((pn, idxs, hash_name, mode, opt))
    for part in split(ctx.order(items), J):
        tasks.append(("wseq", part, shared))

    tasks = ctx.order(tasks)
    pmap_acc(work, tasks, ctx.acc, jobs=ctx.jobs)

    n = ctx.acc.n
    total = sum(v for k, v in n.items() if k.endswith("_cases"))
    ctx.level = "exploration"
    ctx.coverage.update(
        evaluations=total,
        distinct_nontrivial=len([c for c in ctx.acc.classes if not c.endswith("round-trip-evaluated")]),
        rule="(filled below)",
        exhaustive=True,
        bounds={"W.seq": kmax},
    )


def replay(ctx, obj):
    import sys

    _bind_rust()
    return replay_generic(sys.modules[__name__], ctx, obj)
