"""C11 — index file round trip, ordering, checksum, agreement with C git.

Bounded-exhaustive enumeration (engine E4) of index contents, plus exhaustive single-fault damage
(engine E5, engines/mutfault.py) of written indexes.  Families:

  W   dulwich writes (Index.write) -> raw bytes decoded by the independent reference parser
      (engines/refmodels/indexfile.py: order, name-length field, padding, v4 prefix coding, trailer)
      -> C git lists the file (`git ls-files --stage --debug -z`; must agree with the reference
      parser, else HARNESS-ERROR) -> dulwich reads it back (field by field) -> dulwich rewrites it.
        W.paths     every subset of <=k names of a pool engineered for ordering, v4 prefix
                    compression, the 12-bit length saturation (0xFFE..0x1001) and the varint width
                    (strip 127/128/129) x versions x skipHash
        W.conflict  every non-empty subset of stages {1,2,3} x paths x neighbours x versions
        W.flags     assume-valid x skip-worktree x intent-to-add on two entries x versions
        W.pad       every name length 1..17 and 0xFFE..0x1001 x extended word on/off x versions
        W.stat      one stat field at a time over boundary values, modes, int/float/(s,ns) times
  R   files serialised by the reference writer (every one also listed by C git) -> dulwich reads
      -> dulwich rewrites (unknown extensions must survive byte for byte).
        R.paths     same name subsets, v4 with maximal and with no prefix sharing
        R.ext       extension lists over {TREE, REUC, UNTR, unknown upper-case, unknown empty,
                    optional non-upper-case, mandatory unknown} x versions x sha/null trailer
  G   files written by C git -> reference parser == git listing (else HARNESS-ERROR) -> dulwich
      reads -> dulwich rewrites -> git lists again.
        G.info      update-index --index-version N --index-info / --cacheinfo with stages,
                    --assume-unchanged / --skip-worktree
        G.tree      read-tree, 3-way read-tree -m (all 27 ancestor/ours/theirs states of a path),
                    read-tree --prefix
        G.wt        real work trees: git add (stat data), add -N, symlink, gitlink, write-tree,
                    untracked cache, resolve-undo, sparse-checkout (no-cone, cone, cone + sparse index)
  E   multi-step histories ("edit after read"): an index of the conflict / flag families, built by the
      reference writer, by C git and by dulwich, is read with Index(path); every applicable edit of a
      menu is applied through the public API *re-using the entry objects that came out of the file*
      (resolve to this/other/ancestor, swap, rotate, re-wrap, promote a stage entry to another path
      (copy/move), drop/shift/duplicate slots in place, plain entry + foreign stage entry -> new
      conflict, set/clear skip-worktree and assume-valid, copy/rename/delete, fresh replacement);
      the written file must be the intended content (reference parser, C git, dulwich re-read).
  D   E5: every truncation, single-bit flip and byte set to 00/FF/+1/-1 of small written indexes
      (checksummed, i.e. not skipHash) must make Index(path) raise.

Violation keys: <phase>:<function>:<predicate>[@<input class>] — the function is where the first
wrong field is produced (found by diffing against the canonical serialisation / by decoding every
entry on its own with read_cache_entry), the input class is a stable predicate of the entry
(name>=0x1000, strip>=128, value>32bit, non-uppercase-extension ...), never the concrete input.
"""

from __future__ import annotations

import hashlib
import itertools
import math
import os
import re
import struct
import traceback
from fractions import Fraction
from io import BytesIO

from engines import mutfault as MF
from engines.common import Acc, HarnessError, fresh_dir, git, pmap_acc, replay_generic, rp, split
from engines.refmodels import indexfile as R

U32 = 0xFFFFFFFF
KNOWN_TO_DULWICH = (b"TREE", b"REUC", b"UNTR", b"sdir")


def _D():
    from dulwich import index as I

    return I


# --------------------------------------------------------------------------- specs


def _defaults(name: bytes, stage: int):
    h = hashlib.sha1(b"%d:" % stage + name).digest()
    return {
        "ctime": (1600000000 + h[3], 1 + h[4]),
        "mtime": (1600000100 + h[5], 500000000 + h[6]),
        "dev": 2049,
        "ino": 1000 + h[0] * 256 + h[1],
        "mode": 0o100644,
        "uid": 1000,
        "gid": 1001,
        "size": 1 + h[2],
        "sha": hashlib.sha1(b"blob:" + h).hexdigest().encode(),
        "valid": False,
        "xflags": 0,
        "via_stat": False,  # build the IndexEntry with index_entry_from_stat() from a stat-like object
    }


def S(name, stage=0, **fields):
    return (name, stage, fields)


def _fields(spec):
    name, stage, over = spec
    d = _defaults(name, stage)
    d.update(over)
    return d


def _time_alternatives(t):
    """Acceptable on-disk (sec, nsec) for an API time value."""
    if isinstance(t, bool):
        raise HarnessError("bad time")
    if isinstance(t, int):
        return [(t, 0)]
    if isinstance(t, (tuple, list)):
        return [(int(t[0]), int(t[1]))]
    if isinstance(t, float):
        s = math.floor(t)
        exact = (Fraction(t) - s) * 10**9  # exact value of the double
        lo, hi = math.floor(exact), math.ceil(exact)
        out = [(s, lo)]
        if hi != lo:
            out.append((s, hi) if hi < 10**9 else (s + 1, 0))
        return out
    raise HarnessError("bad time %r" % (t,))


def _expected_entry(spec, seen=None):
    """Reference Entry a reader must deliver for this spec.  `seen`: the Entry actually found for
    (name, stage), used only to pick among the acceptable roundings of a float time."""
    name, stage, _ = spec
    f = _fields(spec)
    times = {}
    for k in ("ctime", "mtime"):
        alts = _time_alternatives(f[k])
        pick = alts[0]
        if seen is not None and getattr(seen, k) in alts:
            pick = getattr(seen, k)
        times[k] = pick
    return R.Entry(name, ctime=times["ctime"], mtime=times["mtime"], dev=f["dev"] & U32, ino=f["ino"] & U32,
                   mode=f["mode"], uid=f["uid"], gid=f["gid"], size=f["size"] & U32, sha=bytes.fromhex(f["sha"].decode()),
                   stage=stage, assume_valid=f["valid"], xflags=f["xflags"])


def _expected(specs, seen_entries=None):
    lut = {}
    for e in seen_entries or ():
        lut.setdefault((e.name, e.stage), e)
    out = [_expected_entry(s, lut.get((s[0], s[1]))) for s in specs]
    out.sort(key=lambda e: R.sort_key(e.name, e.stage))
    return out


def _dulwich_fill(idx, specs):
    I = _D()
    by = {}
    for spec in specs:
        name, stage, _ = spec
        f = _fields(spec)
        t = lambda v: tuple(v) if isinstance(v, list) else v
        if f["via_stat"]:
            import types

            st = types.SimpleNamespace(st_mode=f["mode"], st_ino=f["ino"], st_dev=f["dev"], st_uid=f["uid"], st_gid=f["gid"],
                                       st_size=f["size"], st_nlink=1)
            for k in ("ctime", "mtime"):
                v = t(f[k])
                if isinstance(v, tuple):
                    setattr(st, "st_%s_ns" % k, v[0] * 10**9 + v[1])
                    setattr(st, "st_" + k, v[0] + v[1] / 1e9)
                else:
                    setattr(st, "st_" + k, v)  # no *_ns attribute: the float path
            by.setdefault(name, {})[stage] = I.index_entry_from_stat(st, f["sha"])
            continue
        ent = I.IndexEntry(ctime=t(f["ctime"]), mtime=t(f["mtime"]), dev=f["dev"], ino=f["ino"], mode=f["mode"],
                           uid=f["uid"], gid=f["gid"], size=f["size"], sha=f["sha"],
                           flags=I.FLAG_VALID if f["valid"] else 0, extended_flags=f["xflags"])
        by.setdefault(name, {})[stage] = ent
    for name, st in by.items():
        if 0 in st:
            if len(st) != 1:
                raise HarnessError("spec mixes stage 0 with higher stages for one name")
            idx[name] = st[0]
        else:
            idx[name] = I.ConflictedIndexEntry(st.get(1), st.get(2), st.get(3))


# --------------------------------------------------------------------------- comparing entries


def _cmp_fields(exp: R.Entry, got: R.Entry):
    return [f for f in R.diff_fields(exp, got) if f != "extended-bit"]


def _entry_lists_diff(exp, got):
    """-> None when equal, else (label, exp_entry_or_None) describing the first difference."""
    for i in range(max(len(exp), len(got))):
        if i >= len(got):
            return ("entry-missing", exp[i])
        if i >= len(exp):
            return ("entry-extra", None)
        d = _cmp_fields(exp[i], got[i])
        if d:
            return ("+".join(d), exp[i])
    return None


def _assembly_predicate(exp, got):
    """Every entry decodes correctly on its own, yet the dict Index(path) delivers is wrong."""
    strip = lambda es: sorted((e.name,) + e.key()[2:] for e in es)
    if strip(exp) == strip(got):
        return "stage-placement-wrong"
    if len(got) < len(exp):
        return "entries-missing"
    if len(got) > len(exp):
        return "entries-extra"
    return "entries-differ"


def _name_class(n):
    return "name>=0x1000" if n >= 0x1000 else "name<0x1000"


def _strip_class(s):
    return "strip>=128" if s is not None and s >= 128 else "strip<128"


def _short(b, n=40):
    b = bytes(b)
    return repr(b) if len(b) <= n else "%r..(%d bytes)..%r" % (b[:12], len(b), b[-8:])


def _fmt_specs(specs):
    out = []
    for name, stage, over in specs:
        out.append("%s%s%s" % (_short(name, 24), "#%d" % stage if stage else "",
                                 "{%s}" % ",".join("%s=%r" % kv for kv in sorted(over.items())) if over else ""))
    return "[" + ", ".join(out) + "]"


# --------------------------------------------------------------------------- dulwich reader wrapper


def _exc_site(e):
    """Innermost dulwich function on the traceback (stable across line shifts)."""
    site = None
    for fr in traceback.extract_tb(e.__traceback__):
        if "/dulwich/" in fr.filename:
            site = fr.name
    return site or "?"


def _exc_name(e):
    t = type(e)
    return t.__name__ if t.__module__ in ("builtins", "dulwich.errors") else "%s.%s" % (t.__module__, t.__name__)


def _to_ref(name, stage, ent):
    """dulwich IndexEntry -> reference Entry; anything not of the documented shape is kept as is so
    that the comparison fails on that field."""

    def tm(v):
        return tuple(v) if isinstance(v, (tuple, list)) and len(v) == 2 and all(type(x) is int for x in v) else ("bad", repr(v))

    try:
        sha = bytes.fromhex(ent.sha.decode())
    except Exception:
        sha = ent.sha
    e = R.Entry(name, ctime=tm(ent.ctime), mtime=tm(ent.mtime), dev=ent.dev, ino=ent.ino, mode=ent.mode, uid=ent.uid,
                gid=ent.gid, size=ent.size, sha=sha, stage=stage, assume_valid=bool(ent.flags & 0x8000),
                xflags=ent.extended_flags, extended=bool(ent.flags & 0x4000))
    return e


def dul_read(path):
    """-> ('ok', idx, [ref entries sorted], [(sig, data)]) | ('exc', name, site, message)."""
    I = _D()
    try:
        idx = I.Index(path)
        out = []
        for name, v in idx.items():
            if isinstance(v, I.ConflictedIndexEntry):
                for st, ent in ((1, v.ancestor), (2, v.this), (3, v.other)):
                    if ent is not None:
                        out.append(_to_ref(name, st, ent))
            else:
                out.append(_to_ref(name, 0, v))
        out.sort(key=lambda e: R.sort_key(e.name, e.stage))
        exts = [(x.signature, x.to_bytes()) for x in idx._extensions]
        return ("ok", idx, out, exts)
    except Exception as e:
        return ("exc", _exc_name(e), _exc_site(e), str(e)[:160])


# --------------------------------------------------------------------------- C git listing

_GITREPO = {}  # per-process scratch state (git repo, directory for case files)


def _gitrepo():
    pid = os.getpid()
    if _GITREPO.get("pid") != pid:
        d = fresh_dir("git")
        git(["init", "-q", d])
        _GITREPO.update(pid=pid, dir=d)
    return _GITREPO["dir"]


_DBG = re.compile(rb"  ctime: (\d+):(\d+)\n  mtime: (\d+):(\d+)\n  dev: (\d+)\tino: (\d+)\n  uid: (\d+)\tgid: (\d+)\n"
                  rb"  size: (\d+)\tflags: ([0-9a-f]+)\n")


def parse_ls_files(out: bytes):
    """`git ls-files --stage --debug -z` -> list of comparable tuples."""
    res = []
    pos = 0
    n = len(out)
    while pos < n:
        tab = out.index(b"\t", pos)
        mode, sha, stage = out[pos:tab].split(b" ")
        nul = out.index(b"\0", tab)
        name = out[tab + 1 : nul]
        m = _DBG.match(out, nul + 1)
        if not m:
            raise HarnessError("cannot parse ls-files --debug output near %r" % out[nul + 1 : nul + 80])
        g = [int(x) for x in m.groups()[:9]]
        res.append((name, int(stage), int(mode, 8), sha.decode(), (g[0], g[1]), (g[2], g[3]), g[4], g[5], g[6], g[7], g[8],
                    int(m.group(10), 16)))
        pos = m.end()
    return res


def ref_as_git(entries):
    out = []
    for e in entries:
        out.append((e.name, e.stage, e.mode, e.sha.hex(), e.ctime, e.mtime, e.dev, e.ino, e.uid, e.gid, e.size,
                    (e.flags & 0xF000) | (e.xflags << 16)))
    return out


def git_list(path, cwd=None, sparse=False):
    """-> ('ok', tuples) | ('fail', stderr)"""
    args = ["ls-files", "--stage", "--debug", "-z"] + (["--sparse"] if sparse else [])
    p = git(args, cwd=cwd or _gitrepo(), env={"GIT_INDEX_FILE": path} if path else None, check=False)
    if p.returncode != 0:
        return ("fail", p.stderr.decode("latin1")[-200:].strip())
    return ("ok", parse_ls_files(p.stdout))


def oracle_agree(parsed, path, what, cwd=None, sparse=False):
    """The reference parser found the file flawless: C git must list exactly the same entries.
    A disagreement is a bug in this machinery (rule 1), never a violation."""
    st, got = git_list(path, cwd=cwd, sparse=sparse)
    want = ref_as_git(parsed.entries)
    if st == "ok" and any(e.name == b"" for e in parsed.entries):
        got = [((b"",) + t[1:]) if t[0] == b"./" else t for t in got]  # ls-files prints the empty path as ./
    if st != "ok" or got != want:
        detail = got if st != "ok" else "first difference: %r" % (
            next(((a, b) for a, b in itertools.zip_longest(want, got) if a != b), None),)
        raise HarnessError("ORACLE-DISAGREEMENT (%s): reference index parser and C git differ: %s" % (what, str(detail)[:600]))


def git_fsck_index(path):
    """Index-related complaints of `git fsck` (checks the trailer checksum and the entry order)."""
    p = git(["fsck", "--no-dangling", "--connectivity-only"], cwd=_gitrepo(), env={"GIT_INDEX_FILE": path}, check=False)
    err = p.stderr.decode("latin1")
    bad = [l for l in err.splitlines() if re.search(r"index file|sha1 signature|unordered stage|multiple stage|index entry", l)]
    return bad


# --------------------------------------------------------------------------- diagnosis of written bytes

_FIXED_FIELDS = [(0, 8, "ctime"), (8, 16, "mtime"), (16, 20, "dev"), (20, 24, "ino"), (24, 28, "mode"), (28, 32, "uid"),
                 (32, 36, "gid"), (36, 40, "size"), (40, 60, "sha"), (60, 62, "flags")]

_WRITE_SITE = {
    "header.version": "write_index", "header.count": "write_index", "header.signature": "write_index",
    "ctime": "write_cache_time", "mtime": "write_cache_time",
    "dev": "write_cache_entry", "ino": "write_cache_entry", "mode": "write_cache_entry", "uid": "write_cache_entry",
    "gid": "write_cache_entry", "size": "write_cache_entry", "sha": "write_cache_entry", "flags": "write_cache_entry",
    "xflags": "write_cache_entry", "name": "write_cache_entry", "padding": "write_cache_entry",
    "v4-path": "_compress_path", "extension": "write_index_extension", "trailer": "SHA1Writer", "length": "Index.write",
}


def _layout(canon: bytes):
    """(start, end, label, entry_index) for every byte of a canonical file."""
    p = R.parse(canon)
    lay = [(0, 4, "header.signature", None), (4, 8, "header.version", None), (8, 12, "header.count", None)]
    for i, e in enumerate(p.entries):
        for a, b, lab in _FIXED_FIELDS:
            lay.append((e.offset + a, e.offset + b, lab, i))
        if e.name_off > e.offset + 62:
            lay.append((e.offset + 62, e.name_off, "xflags", i))
        if p.version == 4:
            lay.append((e.name_off, e.end, "v4-path", i))
        else:
            lay.append((e.name_off, e.name_off + len(e.name), "name", i))
            lay.append((e.name_off + len(e.name), e.end, "padding", i))
    for sig, data, off in p.extensions:
        lay.append((off, off + 8 + len(data), "extension", None))
    lay.append((len(canon) - 20, len(canon), "trailer", None))
    return p, lay


def diagnose_written(actual: bytes, canon: bytes):
    """First field in which `actual` departs from the canonical serialisation.
    -> (label, canonical Entry or None)"""
    p, lay = _layout(canon)
    n = min(len(actual), len(canon))
    i = next((k for k in range(n) if actual[k] != canon[k]), None)
    if i is None:
        if len(actual) == len(canon):
            return ("identical", None)
        i = n
        if i >= len(canon):
            return ("length", None)
    for a, b, lab, ei in lay:
        if a <= i < b:
            return (lab, p.entries[ei] if ei is not None else None)
    return ("length", None)


def _write_class(label, entry, version, spec_by_key):
    """Stable input class of the entry whose field is wrong."""
    if entry is None:
        return ""
    if label == "v4-path":
        return "@" + (_strip_class(entry.strip) if entry.strip is not None and entry.strip >= 128 else _name_class(len(entry.name)))
    if label in ("flags", "name", "padding", "xflags"):
        return "@" + _name_class(len(entry.name))
    if label in ("dev", "ino", "size", "uid", "gid", "ctime", "mtime", "mode"):
        spec = spec_by_key.get((entry.name, entry.stage))
        if spec is not None:
            v = _fields(spec)[label]
            if isinstance(v, int) and not isinstance(v, bool):
                return "@value>32bit" if v > U32 else "@value<=32bit"
            return "@float-time" if isinstance(v, float) else ""
    return ""


# --------------------------------------------------------------------------- entry-level decode (read diagnosis)


def diagnose_read(data: bytes, parsed):
    """Decode every entry on its own with dulwich's read_cache_entry at the offset the reference
    parser established.  -> None when all agree, else "site:predicate[@class]" (the input class
    is attached only when the fault concerns the name or the cursor)."""
    I = _D()
    prev = b""
    ver = parsed.version
    for e in parsed.entries:
        f = BytesIO(data)
        f.seek(e.offset)
        cls = ("v4:" + _strip_class(e.strip)) if ver == 4 and (e.strip or 0) >= 128 else \
              ("v4:" if ver == 4 else "v2/3:") + _name_class(len(e.name))
        try:
            se = I.read_cache_entry(f, ver, prev)
        except Exception as ex:
            site = _exc_site(ex)
            pred = "name-wrong" if site.startswith("_decompress_path") or site == "_decode_varint" else "raises-" + _exc_name(ex)
            return "%s:%s@%s" % (site, pred, cls)
        got = R.Entry(se.name, ctime=tuple(se.ctime), mtime=tuple(se.mtime), dev=se.dev, ino=se.ino, mode=se.mode, uid=se.uid,
                      gid=se.gid, size=se.size, sha=bytes.fromhex(se.sha.decode()), xflags=se.extended_flags,
                      flags=se.flags & 0xF000)
        d = R.diff_fields(e, got)
        if d:
            if "name" in d:
                return "%s:name-wrong@%s" % ("_decompress_path_from_stream" if ver == 4 else "read_cache_entry", cls)
            return "read_cache_entry:%s-wrong" % "+".join(d)
        if f.tell() != e.end:
            return "read_cache_entry:cursor-after-entry-wrong@%s" % cls
        prev = e.name
    return None


def _ext_class(parsed):
    sigs = [s for s, _, _ in parsed.extensions]
    if any(not all(65 <= c <= 90 for c in s) for s in sigs):
        return "@non-uppercase-extension"
    return ""


# --------------------------------------------------------------------------- shared evaluation: dulwich reads a valid file


def _feature_class(parsed, tag):
    """Structural class of a case (vacuity guard / distinct_nontrivial)."""
    es = parsed.entries
    f = [tag, "v%d" % parsed.version, "n%d" % min(len(es), 4)]
    if any(len(e.name) >= 0x1000 for e in es):
        f.append("name>=0x1000")
    elif any(len(e.name) >= 0xFFE for e in es):
        f.append("name~0xFFF")
    if any((e.strip or 0) >= 128 for e in es):
        f.append("strip>=128")
    elif parsed.version == 4 and any(i and e.strip < len(es[i - 1].name) for i, e in enumerate(es)):
        f.append("prefix-shared")
    if any(e.stage for e in es):
        f.append("stages=" + "".join(sorted(set(str(e.stage) for e in es if e.stage))))
    if any(e.xflags for e in es):
        f.append("xflags")
    if any(e.assume_valid for e in es):
        f.append("valid")
    if parsed.extensions:
        f.append("ext=" + "+".join(s.decode("latin1") for s, _, _ in parsed.extensions))
    if parsed.trailer_kind != "sha":
        f.append("trailer=" + parsed.trailer_kind)
    return ":".join(f)


def eval_read(acc: Acc, path, tag, replay, summary, cwd=None, sparse=False, git_must_read=True):
    """`path` holds an index that the reference parser must find flawless (it was produced by the
    reference writer or by C git).  dulwich must read the same entries, and rewriting must keep
    entries and unknown extensions."""
    with open(path, "rb") as f:
        data = f.read()
    try:
        parsed = R.parse(data)
    except R.IndexFormatError as e:
        raise HarnessError("reference parser rejects a %s index: %s (%s)" % (tag, e, summary))
    if not parsed.clean:
        raise HarnessError("reference parser finds problems in a %s index: %r %r (%s)" % (tag, parsed.problems, parsed.pedantic, summary))
    if git_must_read:
        oracle_agree(parsed, path if cwd is None else None, tag + " " + summary, cwd=cwd, sparse=sparse)
    acc.outcome(_feature_class(parsed, tag))
    r = dul_read(path)
    file_cls = _ext_class(parsed)
    if not git_must_read:
        # C git refuses this file as well: whatever dulwich does with it is outside the statement
        acc.outcome("%s:git-refuses-too:dulwich-%s" % (tag, "raises" if r[0] == "exc" else "reads" if not _entry_lists_diff(parsed.entries, r[2]) else "differs"))
        return parsed, None
    if r[0] == "exc" or _entry_lists_diff(parsed.entries, r[2]):
        d = diagnose_read(data, parsed)
        what = "raises %s in %s: %s" % r[1:] if r[0] == "exc" else "entries differ (%s)" % (_entry_lists_diff(parsed.entries, r[2])[0],)
        if d is not None:
            key = "read:" + d
        elif r[0] == "exc":
            key = "read:Index.read:raises-%s%s" % (r[1], file_cls)
        else:
            key = "read:Index.read:" + _assembly_predicate(parsed.entries, r[2])
        acc.violation(key, "dulwich cannot read a %s index that C git lists fine: Index(path) %s; %s" % (tag, what, summary), replay)
        acc.outcome(tag + ":read:VIOLATION")
        return parsed, None
    acc.outcome(tag + ":read:ok")
    # ---- rewrite
    idx = r[1]
    try:
        idx.write()
    except Exception as e:
        acc.violation("rewrite:%s:raises-%s%s" % (_exc_site(e), _exc_name(e), file_cls),
                      "Index.write() of an index just read (%s) raises %r; %s" % (tag, e, summary), replay)
        return parsed, None
    with open(path, "rb") as f:
        data2 = f.read()
    if data2 == data:
        acc.outcome(tag + ":rewrite:byte-identical")
        return parsed, data2
    try:
        p2 = R.parse(data2)
    except R.IndexFormatError as e:
        p2 = None
        err = str(e)
    if p2 is None or p2.problems or _entry_lists_diff(parsed.entries, p2.entries):
        # an Index object that was read carries skip_hash=False: the rewrite is checksummed
        canon = R.build(parsed.version, parsed.entries, [(s, d) for s, d, _ in (p2.extensions if p2 else parsed.extensions)])
        lab, ent = diagnose_written(data2, canon)
        cls = _write_class(lab, ent, parsed.version, {})
        why = err if p2 is None else "%r %r" % (p2.codes(), _entry_lists_diff(parsed.entries, p2.entries))
        key = "write:%s:%s-wrong%s" % (_WRITE_SITE.get(lab, "Index.write"), lab, cls)
        if p2 is not None and not p2.order_ok and sorted(e.key() for e in p2.entries) == sorted(e.key() for e in parsed.entries):
            key = "write:write_index_dict:entries-not-in-git-order"
        acc.violation(key,
                      "index read from a %s file and written back is wrong (%s); %s" % (tag, why, summary), replay)
        acc.outcome(tag + ":rewrite:VIOLATION")
        return parsed, data2
    sigs2 = [x for x, _, _ in p2.extensions]
    lost_mandatory = [x for x, _, _ in parsed.extensions if not R.optional_extension(x) and x not in sigs2]
    if lost_mandatory:
        # e.g. `sdir`: without it C git no longer accepts the sparse-directory entries
        acc.violation("rewrite:Index.write:mandatory-extension-dropped",
                      "mandatory extension(s) %r lost across read+write of a %s index; %s" % (lost_mandatory, tag, summary), replay)
        acc.outcome(tag + ":rewrite:VIOLATION")
        return parsed, data2
    if p2.clean:
        oracle_agree(p2, path if cwd is None else None, tag + " rewritten " + summary, cwd=cwd, sparse=sparse)
    else:
        acc.outcome("pedantic:" + ",".join(sorted(set(c for c, _ in p2.pedantic))))
    before = [(s, d) for s, d, _ in parsed.extensions if s not in KNOWN_TO_DULWICH]
    after = [(s, d) for s, d, _ in p2.extensions if s not in KNOWN_TO_DULWICH]
    for s, _, _ in parsed.extensions:
        if s in KNOWN_TO_DULWICH and s not in [x for x, _, _ in p2.extensions]:
            acc.outcome("%s:rewrite:known-extension-%s-dropped(allowed)" % (tag, s.decode()))
    if before != after:
        lost = [x for x in before if x not in after]
        if lost and all(x[0] not in [a[0] for a in after] for x in lost):
            pred = "unknown-extension-dropped@" + ("empty-payload" if all(not d for _, d in lost) else "nonempty-payload")
        else:
            pred = "unknown-extension-altered"
        acc.violation("rewrite:Index.write:" + pred,
                      "unknown extension(s) not kept across read+write of a %s index: before %r after %r; %s" % (
                          tag, [(s, len(d)) for s, d in before], [(s, len(d)) for s, d in after], summary), replay)
        acc.outcome(tag + ":rewrite:VIOLATION")
    else:
        acc.outcome(tag + ":rewrite:equivalent" + (":unknown-ext-kept" if before else ""))
    return parsed, data2


# --------------------------------------------------------------------------- W: dulwich writes


def _case_file(prefix):
    d = _GITREPO.get("files")
    if d is None or _GITREPO.get("files_pid") != os.getpid():
        d = fresh_dir("idx")
        _GITREPO.update(files=d, files_pid=os.getpid())
    return os.path.join(d, prefix)


def _rm(path):
    for p in (path, path + ".lock"):
        try:
            os.remove(p)
        except OSError:
            pass


def case_write(acc: Acc, version, skip_hash, specs, fsck=False):
    """dulwich writes `specs`; reference parser, C git, dulwich re-read and rewrite must agree."""
    I = _D()
    specs = [(bytes(n), st, dict(f)) for n, st, f in specs]
    me = rp(case_write, version, skip_hash, specs, fsck)
    summ = "version=%r skip_hash=%r entries=%s" % (version, skip_hash, _fmt_specs(specs))
    path = _case_file("w.index")
    _rm(path)
    acc.count("W_cases")
    try:
        _case_write(acc, I, version, skip_hash, specs, fsck, me, summ, path)
    finally:
        _rm(path)


def _case_write(acc, I, version, skip_hash, specs, fsck, me, summ, path):
    idx = I.Index(path, read=False, version=version, skip_hash=skip_hash)
    _dulwich_fill(idx, specs)
    spec_by_key = {(s[0], s[1]): s for s in specs}
    try:
        idx.write()
    except Exception as e:
        f_all = [_fields(s) for s in specs]
        if any(f[k] > U32 for f in f_all for k in ("size",)):
            cls = "@size>32bit"
        elif any(f[k] > U32 for f in f_all for k in ("dev", "ino")):
            cls = "@dev-or-ino>32bit"
        elif any(len(s[0]) >= 0x1000 for s in specs):
            cls = "@name>=0x1000"
        else:
            cls = "@in-range-input"
        acc.outcome("W:write-raises")
        acc.violation("write:%s:raises-%s%s" % (_exc_site(e), _exc_name(e), cls),
                      "Index.write() raises %s: %s (afterwards the target file %s); %s" % (
                          _exc_name(e), str(e)[:100], "EXISTS (torn index installed)" if os.path.exists(path) else "does not exist", summ), me)
        return
    with open(path, "rb") as f:
        data = f.read()
    exp_version = version or 2
    if exp_version < 3 and any(_fields(s)["xflags"] for s in specs):
        exp_version = 3
    parsed = None
    perr = None
    try:
        parsed = R.parse(data)
    except R.IndexFormatError as e:
        perr = e
    exp = _expected(specs, parsed.entries if parsed else None)
    want_trailer = "zero" if skip_hash else "sha"
    bad = None
    if parsed is None:
        bad = "reference parser cannot decode the file: %s" % perr
    elif not parsed.order_ok and sorted(e.key() for e in parsed.entries) == sorted(e.key() for e in exp):
        bad = "order"  # every entry decodes to what was written, only the sequence is wrong
    elif parsed.version != exp_version:
        bad = "version %d instead of %d" % (parsed.version, exp_version)
    elif parsed.problems:
        bad = "format problems %r" % (parsed.codes(),)
    elif _entry_lists_diff(exp, parsed.entries):
        bad = "entries differ in %s" % (_entry_lists_diff(exp, parsed.entries)[0],)
    elif parsed.extensions:
        bad = "unexpected extensions %r" % ([s for s, _, _ in parsed.extensions],)
    elif parsed.trailer_kind != want_trailer:
        bad = "trailer is %s, expected %s" % (parsed.trailer_kind, want_trailer)
    if bad:
        gst = git_list(path)
        gtxt = "C git: " + ("lists %d entries" % len(gst[1]) if gst[0] == "ok" else gst[1])
        if bad == "order":
            key = "write:write_index_dict:entries-not-in-git-order"
            bad = "entries are not sorted by (name, stage): [%s]" % ", ".join("%s#%d" % (_short(e.name, 16), e.stage) for e in parsed.entries[:6])
        else:
            canon = R.build(exp_version, exp, trailer=want_trailer)
            lab, ent = diagnose_written(data, canon)
            if lab == "trailer" and skip_hash:
                key = "write:Index.write:skiphash-trailer-wrong"
            elif lab == "identical":
                raise HarnessError("written file equals the canonical bytes but was judged bad: %s (%s)" % (bad, summ))
            else:
                key = "write:%s:%s-wrong%s" % (_WRITE_SITE.get(lab, "Index.write"), lab, _write_class(lab, ent, exp_version, spec_by_key))
            bad += "; first field differing from the canonical serialisation: %s%s" % (lab, " of entry %s" % _short(ent.name, 24) if ent else "")
        rr = dul_read(path)
        acc.outcome("W:written-file:VIOLATION")
        acc.violation(key, "Index.write() produced a wrong file: %s; %s; dulwich re-read: %s; %s" % (
            bad, gtxt, "ok" if rr[0] == "ok" else "raises %s in %s" % rr[1:3], summ), me)
        return
    if parsed.pedantic:
        acc.outcome("pedantic:" + ",".join(sorted(set(c for c, _ in parsed.pedantic))))
    else:
        oracle_agree(parsed, path, "dulwich-written " + summ)
    if fsck and not skip_hash:
        complaints = git_fsck_index(path)
        if complaints:
            raise HarnessError("ORACLE-DISAGREEMENT: git fsck complains about an index the reference parser accepts: %r (%s)" % (complaints, summ))
        acc.count("W_fsck_clean")
    acc.outcome(_feature_class(parsed, "W"))
    canon = R.build(exp_version, exp, trailer=want_trailer)
    acc.outcome("W:bytes-" + ("canonical" if canon == data else "valid-but-not-canonical"))
    # ---- dulwich reads its own file back
    r = dul_read(path)
    if r[0] == "exc":
        d = diagnose_read(data, parsed)
        key = "read:" + d if d else "read:Index.read:raises-%s%s" % (r[1], _ext_class(parsed))
        acc.outcome("W:reread:VIOLATION")
        acc.violation(key, "Index(path) after Index.write() raises %s in %s: %s; %s" % (r[1], r[2], r[3], summ), me)
        return
    diff = _entry_lists_diff(exp, r[2])
    if diff:
        d = diagnose_read(data, parsed)
        key = "read:" + d if d else "read:Index.read:" + _assembly_predicate(exp, r[2])
        acc.outcome("W:reread:VIOLATION")
        acc.violation(key, "entries read back differ from the entries written in %s; %s" % (diff[0], summ), me)
        return
    acc.outcome("W:reread:ok")
    # ---- and writes it again
    try:
        r[1].write()
    except Exception as e:
        acc.violation("rewrite:%s:raises-%s" % (_exc_site(e), _exc_name(e)), "second Index.write() raises %r; %s" % (e, summ), me)
        return
    with open(path, "rb") as f:
        data2 = f.read()
    if data2 != data:
        try:
            p2 = R.parse(data2)
            same = not p2.problems and not _entry_lists_diff(exp, p2.entries) and p2.trailer_kind in ("sha", "zero")
        except R.IndexFormatError:
            same = False
        if not same:
            lab, ent = diagnose_written(data2, data)
            acc.outcome("W:rewrite:VIOLATION")
            acc.violation("write:%s:%s-wrong%s" % (_WRITE_SITE.get(lab, "Index.write"), lab, _write_class(lab, ent, exp_version, spec_by_key)),
                          "read+write of a dulwich-written index changed it (first differing field %s); %s" % (lab, summ), me)
            return
        acc.outcome("W:rewrite:equivalent-not-identical")
    else:
        acc.outcome("W:rewrite:byte-identical")


# --------------------------------------------------------------------------- R: reference-built files


def _ext_payload(kind, specs):
    """Extension payloads valid per the format documentation."""
    oid = hashlib.sha1(b"tree").digest()
    n0 = len([s for s in specs if s[1] == 0])
    if kind == "TREE":
        return (b"TREE", R.tree_extension([(b"", n0, 0, oid)]))
    if kind == "TREE-invalid":
        return (b"TREE", R.tree_extension([(b"", -1, 0, None)]))
    if kind == "REUC":
        return (b"REUC", R.reuc_extension([(b"resolved", [(0o100644, oid), None, (0o100755, oid[::-1])])]))
    if kind == "UNTR":
        # header only: ident strings, two stat blocks, flags, two hashes, exclude name, zero dir blocks
        ident = b"Location /x, system Linux\0"
        return (b"UNTR", R.varint_encode(len(ident)) + ident + b"\0" * 36 + b"\0" * 36 + struct.pack(">L", 6) +
                b"\0" * 20 + b"\0" * 20 + b".gitignore\0" + R.varint_encode(0) + b"\0")
    if kind.startswith("raw:"):
        _, sig, n = kind.split(":")
        return (sig.encode(), bytes((7 * i + 1) & 0xFF for i in range(int(n))))
    raise HarnessError(kind)


def case_read_built(acc: Acc, version, specs, ext_kinds, trailer, v4_prefix):
    specs = [(bytes(n), st, dict(f)) for n, st, f in specs]
    me = rp(case_read_built, version, specs, list(ext_kinds), trailer, v4_prefix)
    summ = "reference-built version=%d trailer=%s v4_prefix=%s ext=%r entries=%s" % (version, trailer, v4_prefix, list(ext_kinds), _fmt_specs(specs))
    exts = [_ext_payload(k, specs) for k in ext_kinds]
    data = R.build(version, _expected(specs), exts, trailer=trailer, v4_prefix=v4_prefix)
    path = _case_file("r.index")
    _rm(path)
    with open(path, "wb") as f:
        f.write(data)
    acc.count("R_cases")
    # C git refuses indexes with a mandatory extension it does not know; then nothing is demanded
    mandatory_unknown = any(not R.optional_extension(s) and s not in (b"link", b"sdir") for s, _ in exts)
    try:
        if mandatory_unknown and git_list(path)[0] == "ok":
            raise HarnessError("git accepted a mandatory unknown extension: " + summ)
        eval_read(acc, path, "R", me, summ, git_must_read=not mandatory_unknown)
    finally:
        _rm(path)


# --------------------------------------------------------------------------- G: C git writes


def _oid(tag: bytes) -> bytes:
    return hashlib.sha1(b"oid:" + tag).hexdigest().encode()


def _info_lines(items):
    return b"".join(b"%o %s %d\t%s\0" % (mode, _oid(name + b"#%d" % stage), stage, name) for mode, stage, name in items)


def case_git_info(acc: Acc, version, items, flagops, how):
    """git update-index --index-version N --index-info | --cacheinfo ... then flag operations."""
    items = [(m, st, bytes(n)) for m, st, n in items]
    me = rp(case_git_info, version, items, [list(x) for x in flagops], how)
    summ = "git update-index --index-version %d %s [%s] flagops=[%s]" % (
        version, how, ", ".join("%o#%d %s" % (m, st, _short(n, 24)) for m, st, n in items), "; ".join("%s %s" % (f, ",".join(_short(n, 16) for n in ns)) for f, ns in flagops))
    path = _case_file("g.index")
    _rm(path)
    env = {"GIT_INDEX_FILE": path}
    repo = _gitrepo()
    acc.count("G_info_cases")
    try:
        if how == "index-info":
            git(["update-index", "--index-version", str(version), "-z", "--index-info"], cwd=repo, env=env, input=_info_lines(items))
        else:
            args = ["update-index", "--index-version", str(version), "--add"]
            for m, st, n in items:
                if st:
                    raise HarnessError("--cacheinfo cannot create stages")
                args += ["--cacheinfo", "%o,%s,%s" % (m, _oid(n + b"#0").decode(), os.fsdecode(n))]
            git(args, cwd=repo, env=env)
        for flag, names in flagops:
            git(["update-index", flag, "-z", "--stdin"], cwd=repo, env=env, input=b"".join(bytes(n) + b"\0" for n in names))
        if not os.path.exists(path):
            git(["update-index", "--index-version", str(version), "--force-write"], cwd=repo, env=env)
        eval_read(acc, path, "G.info", me, summ)
    finally:
        _rm(path)


def _write_tree(repo, items):
    """tree id for [(mode, name, content-tag)] through a temporary index (objects may be missing)."""
    tmp = _case_file("t.index")
    _rm(tmp)
    env = {"GIT_INDEX_FILE": tmp}
    if items:
        git(["update-index", "-z", "--index-info"], cwd=repo, env=env,
            input=b"".join(b"%o %s 0\t%s\0" % (m, _oid(tag), n) for m, n, tag in items))
    else:
        git(["read-tree", "--empty"], cwd=repo, env=env)
    t = git(["write-tree", "--missing-ok"], cwd=repo, env=env).stdout.strip().decode()
    _rm(tmp)
    return t


def case_git_readtree(acc: Acc, version, mode, trees):
    """mode: 'one' (read-tree T0), 'merge3' (read-tree -i -m T0 T1 T2), 'prefix' (T0, then
    --prefix=sub/ T1).  trees: list of [(mode, name, content-tag)]."""
    trees = [[(m, bytes(n), bytes(t)) for m, n, t in tr] for tr in trees]
    me = rp(case_git_readtree, version, mode, trees)
    summ = "git read-tree (%s) version %d trees=%s" % (mode, version, " | ".join(
        "{" + ", ".join("%s=%s" % (_short(n, 16), t.decode()) for _, n, t in tr) + "}" for tr in trees))
    repo = _gitrepo()
    path = _case_file("g.index")
    _rm(path)
    env = {"GIT_INDEX_FILE": path}
    acc.count("G_tree_cases")
    try:
        ids = [_write_tree(repo, tr) for tr in trees]
        if mode == "one":
            git(["read-tree", ids[0]], cwd=repo, env=env)
        elif mode == "merge3":
            git(["read-tree", "-i", "-m", ids[0], ids[1], ids[2]], cwd=repo, env=env)
        elif mode == "prefix":
            git(["read-tree", ids[0]], cwd=repo, env=env)
            git(["read-tree", "--prefix=sub/", ids[1]], cwd=repo, env=env)
        else:
            raise HarnessError(mode)
        git(["update-index", "--index-version", str(version), "--force-write"], cwd=repo, env=env)
        eval_read(acc, path, "G.tree", me, summ)
    finally:
        _rm(path)


WT_SCENARIOS = ("add", "add-N", "flags", "gitlink", "write-tree", "untracked-cache", "resolve-undo",
                "sparse-nocone", "sparse-cone", "sparse-index")


def case_git_worktree(acc: Acc, scenario, version):
    """Real work tree; the index carries real stat data."""
    me = rp(case_git_worktree, scenario, version)
    summ = "git work tree scenario %s, index version %d" % (scenario, version)
    d = fresh_dir("wt")
    acc.count("G_wt_cases")
    g = lambda *a, **k: git(list(a), cwd=d, **k)
    g("init", "-q", ".")
    for rel, content in (("a", b"a\n"), ("d/b", b"b\n"), ("d/e/c", b"c\n"), ("f/g", b"g\n"), ("f/h/i", b"i\n"), ("x y", b"space\n"),
                         ("é", b"e\n")) + ((("n" * 200, b"long\n"),) if scenario == "add" else ()):
        p = os.path.join(d, rel)
        os.makedirs(os.path.dirname(p), exist_ok=True)
        with open(p, "wb") as f:
            f.write(content)
    os.chmod(os.path.join(d, "d/b"), 0o755)
    os.symlink("a", os.path.join(d, "lnk"))
    g("add", ".")
    sparse = False
    if scenario == "add":
        pass
    elif scenario == "add-N":
        with open(os.path.join(d, "later"), "wb") as f:
            f.write(b"later\n")
        g("add", "-N", "later")
    elif scenario == "flags":
        g("update-index", "--assume-unchanged", "a", "d/b")
        g("update-index", "--skip-worktree", "d/b", "f/g")
    elif scenario == "gitlink":
        g("update-index", "--add", "--cacheinfo", "160000,%s,sub" % _oid(b"sub").decode())
    elif scenario == "write-tree":
        g("write-tree")
        with open(os.path.join(d, "d/new"), "wb") as f:
            f.write(b"new\n")
        g("add", "d/new")  # invalidates part of the cache tree
    elif scenario == "untracked-cache":
        with open(os.path.join(d, "untracked"), "wb") as f:
            f.write(b"u\n")
        g("update-index", "--untracked-cache")
        g("status", "--porcelain")
    elif scenario == "resolve-undo":
        blobs = [g("hash-object", "-w", "--stdin", input=c).stdout.strip() for c in (b"base\n", b"ours\n", b"theirs\n")]
        g("update-index", "--index-info", input=b"0 " + b"0" * 40 + b"\ta\n" + b"".join(
            b"100644 %s %d\ta\n" % (b, i + 1) for i, b in enumerate(blobs)))
        g("add", "a")  # resolves the conflict -> REUC
    elif scenario.startswith("sparse"):
        g("commit", "-q", "-m", "m")
        if scenario == "sparse-nocone":
            g("sparse-checkout", "set", "--no-cone", "/*", "!/f/")
        elif scenario == "sparse-cone":
            g("sparse-checkout", "set", "--cone", "d")
        else:
            g("sparse-checkout", "set", "--cone", "--sparse-index", "d")
            sparse = True
    else:
        raise HarnessError(scenario)
    g("update-index", "--index-version", str(version), "--force-write")
    path = os.path.join(d, ".git", "index")
    parsed, data2 = eval_read(acc, path, "G.wt." + scenario, me, summ, cwd=d, sparse=sparse)
    if data2 is not None:
        p = g("status", "--porcelain", check=False)
        if p.returncode != 0:
            acc.violation("rewrite:Index.write:git-status-fails-afterwards", "git status fails on the rewritten index: %s; %s" % (
                p.stderr[-200:], summ), me)
    import shutil

    shutil.rmtree(d, ignore_errors=True)


# --------------------------------------------------------------------------- E: edit after read


SLOTS = {"ancestor": 1, "this": 2, "other": 3}
EDIT_OPS = ("noop", "resolve", "swap", "rotate", "rewrap", "promote-copy", "promote-move", "drop", "shift", "dup", "conflict-from",
            "self-conflict", "skip", "skip-stage", "valid", "copy", "rename", "delete", "replace-fresh")


def _clone(e, name=None, stage=None, valid=None, xflags=None):
    return R.Entry(e.name if name is None else name, ctime=e.ctime, mtime=e.mtime, dev=e.dev, ino=e.ino, mode=e.mode, uid=e.uid,
                   gid=e.gid, size=e.size, sha=e.sha, stage=e.stage if stage is None else stage,
                   assume_valid=e.assume_valid if valid is None else valid, xflags=e.xflags if xflags is None else xflags)


def _model_of(entries):
    m = {}
    for e in entries:
        m.setdefault(e.name, {})[e.stage] = e
    return m


def _model_flat(m):
    out = [e for st in m.values() for e in st.values()]
    out.sort(key=lambda e: R.sort_key(e.name, e.stage))
    return out


def _git_build(path, version, specs):
    """The index described by specs, written by C git (stat data is zero, ids are git's)."""
    repo = _gitrepo()
    env = {"GIT_INDEX_FILE": path}
    items = [(_fields(s)["mode"], s[1], s[0]) for s in specs]
    git(["update-index", "--index-version", str(version), "-z", "--index-info"], cwd=repo, env=env, input=_info_lines(items))
    for flag, pred in (("--assume-unchanged", lambda f: f["valid"]), ("--skip-worktree", lambda f: f["xflags"] & 0x4000)):
        names = [s[0] for s in specs if s[1] == 0 and pred(_fields(s))]
        if names:
            git(["update-index", flag, "-z", "--stdin"], cwd=repo, env=env, input=b"".join(n + b"\0" for n in names))


def _apply_edit(I, idx, m, edit):
    """Apply one edit through dulwich's public API and, in parallel, to the model
    (name -> {stage: reference Entry}).  Values are entry objects obtained from the parsed index."""
    op = edit[0]
    CIE = I.ConflictedIndexEntry
    if op == "noop":
        return
    if op == "resolve":  # idx[p] = conflict.<slot>
        _, p, slot = edit
        idx[p] = getattr(idx[p], slot)
        m[p] = {0: _clone(m[p][SLOTS[slot]], stage=0)}
    elif op == "swap":  # this <-> other
        _, p = edit
        c = idx[p]
        idx[p] = CIE(ancestor=c.ancestor, this=c.other, other=c.this)
        old = m[p]
        m[p] = {st2: _clone(old[st1], stage=st2) for st1, st2 in ((1, 1), (3, 2), (2, 3)) if st1 in old}
    elif op == "rotate":  # ancestor<-other, this<-ancestor, other<-this
        _, p = edit
        c = idx[p]
        idx[p] = CIE(ancestor=c.other, this=c.ancestor, other=c.this)
        old = m[p]
        m[p] = {st2: _clone(old[st1], stage=st2) for st1, st2 in ((3, 1), (1, 2), (2, 3)) if st1 in old}
    elif op == "rewrap":  # the same entry objects inside a new ConflictedIndexEntry
        _, p = edit
        c = idx[p]
        idx[p] = CIE(ancestor=c.ancestor, this=c.this, other=c.other)
    elif op == "promote-copy":  # a stage entry also becomes the plain entry of another path
        _, p, slot, q = edit
        idx[q] = getattr(idx[p], slot)
        m[q] = {0: _clone(m[p][SLOTS[slot]], name=q, stage=0)}
    elif op == "promote-move":
        _, p, slot, q = edit
        idx[q] = getattr(idx[p], slot)
        del idx[p]
        m[q] = {0: _clone(m[p][SLOTS[slot]], name=q, stage=0)}
        del m[p]
    elif op == "drop":  # conflict.<slot> = None, in place
        _, p, slot = edit
        setattr(idx[p], slot, None)
        del m[p][SLOTS[slot]]
    elif op == "shift":  # move an entry object to another slot, in place
        _, p, src, dst = edit
        c = idx[p]
        setattr(c, dst, getattr(c, src))
        setattr(c, src, None)
        m[p][SLOTS[dst]] = _clone(m[p][SLOTS[src]], stage=SLOTS[dst])
        del m[p][SLOTS[src]]
    elif op == "dup":  # the same entry object in two slots
        _, p, src, dst = edit
        c = idx[p]
        setattr(c, dst, getattr(c, src))
        m[p][SLOTS[dst]] = _clone(m[p][SLOTS[src]], stage=SLOTS[dst])
    elif op == "conflict-from":  # a plain entry becomes "this", a stage entry of another path becomes "other"
        _, r, p, slot = edit
        n = idx[r]
        idx[r] = CIE(ancestor=None, this=n, other=getattr(idx[p], slot))
        m[r] = {2: _clone(m[r][0], stage=2), 3: _clone(m[p][SLOTS[slot]], name=r, stage=3)}
    elif op == "self-conflict":  # one plain entry object as ancestor and this
        _, r = edit
        n = idx[r]
        idx[r] = CIE(ancestor=n, this=n, other=None)
        m[r] = {1: _clone(m[r][0], stage=1), 2: _clone(m[r][0], stage=2)}
    elif op == "skip":  # set_skip_worktree on a plain entry
        _, r, on = edit
        idx[r].set_skip_worktree(on)
        e = m[r][0]
        m[r][0] = _clone(e, xflags=(e.xflags | 0x4000) if on else (e.xflags & ~0x4000))
    elif op == "skip-stage":  # set_skip_worktree on a stage entry
        _, p, slot, on = edit
        getattr(idx[p], slot).set_skip_worktree(on)
        e = m[p][SLOTS[slot]]
        m[p][SLOTS[slot]] = _clone(e, xflags=(e.xflags | 0x4000) if on else (e.xflags & ~0x4000))
    elif op == "valid":  # assume-valid bit through the flags attribute
        _, r, on = edit
        e = idx[r]
        e.flags = (e.flags | I.FLAG_VALID) if on else (e.flags & ~I.FLAG_VALID)
        m[r][0] = _clone(m[r][0], valid=bool(on))
    elif op == "copy":  # the same entry object under two paths
        _, r, q = edit
        idx[q] = idx[r]
        m[q] = {0: _clone(m[r][0], name=q)}
    elif op == "rename":
        _, r, q = edit
        idx[q] = idx[r]
        del idx[r]
        m[q] = {0: _clone(m[r][0], name=q)}
        del m[r]
    elif op == "delete":
        _, r = edit
        del idx[r]
        del m[r]
    elif op == "replace-fresh":  # a new IndexEntry object (no re-use): the control
        _, r = edit
        spec = S(r + b"?", 0)
        tmp = {}
        _dulwich_fill(tmp, [spec])
        idx[r] = tmp[r + b"?"]
        m[r] = {0: _clone(_expected_entry(spec), name=r)}
    else:
        raise HarnessError("unknown edit %r" % (edit,))


def _fmt_edit(edit):
    return "(" + ", ".join(_short(x, 16) if isinstance(x, (bytes, bytearray)) else str(x) for x in edit) + ")"


def case_edit(acc: Acc, source, version, specs, edit):
    """Multi-step history: an index (built by the reference writer / C git / dulwich) is read with
    Index(path), edited through the public API re-using the entry objects that came out of the
    file, written, and compared with the intended content (reference parser, C git, re-read)."""
    I = _D()
    specs = [(bytes(n), st, dict(f)) for n, st, f in specs]
    edit = tuple(bytes(x) if isinstance(x, (bytes, bytearray)) else x for x in edit)
    me = rp(case_edit, source, version, specs, list(edit))
    summ = "%s-built v%d index %s, read, edit %s, write" % (source, version, _fmt_specs(specs), _fmt_edit(edit))
    path = _case_file("e.index")
    _rm(path)
    acc.count("E_cases")
    try:
        _case_edit(acc, I, source, version, specs, edit, me, summ, path)
    finally:
        _rm(path)


def _case_edit(acc, I, source, version, specs, edit, me, summ, path):
    # ---- step 1: the initial file
    if source == "ref":
        with open(path, "wb") as f:
            f.write(R.build(version, _expected(specs)))
    elif source == "git":
        _git_build(path, version, specs)
    elif source == "dulwich":
        w = I.Index(path, read=False, version=version)
        _dulwich_fill(w, specs)
        w.write()
    else:
        raise HarnessError(source)
    with open(path, "rb") as f:
        data0 = f.read()
    try:
        p0 = R.parse(data0)
    except R.IndexFormatError:
        p0 = None
    if p0 is None or not p0.clean:
        if source == "dulwich":
            acc.outcome("E:initial-file-wrong(reported-by-W)")
            return
        raise HarnessError("reference parser rejects a %s-built index: %s" % (source, summ))
    if source == "git":
        oracle_agree(p0, path, "git-built " + summ)
    if source == "dulwich" and _entry_lists_diff(_expected(specs, p0.entries), p0.entries):
        # dulwich's writer did not produce the intended starting index (family W reports that); the edit was
        # chosen for the intended content and does not apply to what is in the file
        acc.outcome("E:initial-file-wrong(reported-by-W)")
        return
    # ---- step 2: read
    r = dul_read(path)
    if r[0] == "exc" or _entry_lists_diff(p0.entries, r[2]):
        acc.outcome("E:initial-read-wrong(reported-by-R/G)")
        return
    idx = r[1]
    m = _model_of(p0.entries)
    # ---- step 3: edit, re-using the parsed entry objects
    try:
        _apply_edit(I, idx, m, edit)
    except HarnessError:
        raise
    except Exception as e:
        if _exc_site(e) == "?":
            raise HarnessError("edit %r not applicable: %r (%s)" % (edit, e, summ))
        acc.violation("edit:%s:raises-%s@%s" % (_exc_site(e), _exc_name(e), edit[0]),
                      "editing an index that was just read raises %r; %s" % (e, summ), me)
        return
    intended = _model_flat(m)
    exp_version = p0.version
    if exp_version < 3 and any(e.xflags for e in intended):
        exp_version = 3
    # ---- step 4: write
    try:
        idx.write()
    except Exception as e:
        acc.outcome("E:write-raises")
        acc.violation("write:%s:raises-%s@entry-reused-after-read" % (_exc_site(e), _exc_name(e)),
                      "Index.write() after an edit raises %s: %s; %s" % (_exc_name(e), str(e)[:100], summ), me)
        return
    with open(path, "rb") as f:
        data = f.read()
    p2 = perr = None
    try:
        p2 = R.parse(data)
    except R.IndexFormatError as e:
        perr = e
    nostage = lambda es: sorted((e.name,) + e.key()[2:11] + (e.assume_valid, e.xflags) for e in es)
    bad = key = None
    if p2 is None:
        bad = "reference parser cannot decode the file: %s" % perr
    elif _entry_lists_diff(intended, p2.entries) or p2.problems or p2.version != exp_version or p2.trailer_kind != "sha":
        d = _entry_lists_diff(intended, p2.entries)
        bad = "entries differ in %s" % d[0] if d else "problems %r version %d trailer %s" % (p2.codes(), p2.version, p2.trailer_kind)
        if d and nostage(intended) == nostage(p2.entries):
            # every entry is there with all its fields, only filed under another stage
            key = "write:IndexEntry.serialize:stage-wrong@entry-reused-after-read"
            bad = "entries are written under the wrong stage: intended [%s], file has [%s]" % (
                ", ".join("%s#%d" % (_short(e.name, 12), e.stage) for e in intended), ", ".join("%s#%d" % (_short(e.name, 12), e.stage) for e in p2.entries))
        elif not p2.order_ok and sorted(e.key() for e in p2.entries) == sorted(e.key() for e in intended):
            key = "write:write_index_dict:entries-not-in-git-order"
    if bad:
        if key is None:
            canon = R.build(exp_version, intended)
            lab, ent = diagnose_written(data, canon)
            if lab == "identical":
                raise HarnessError("written file equals the canonical bytes but was judged bad: %s (%s)" % (bad, summ))
            key = "write:%s:%s-wrong%s@entry-reused-after-read" % (_WRITE_SITE.get(lab, "Index.write"), lab, _write_class(lab, ent, exp_version, {}))
            bad += "; first field differing from the canonical serialisation of the intended content: %s" % lab
        gst = git_list(path)
        gtxt = "C git: " + ("lists [%s]" % ", ".join("%s#%d" % (_short(t[0], 12), t[1]) for t in gst[1][:8]) if gst[0] == "ok" else gst[1])
        rr = dul_read(path)
        rtxt = "raises %s" % rr[1] if rr[0] == "exc" else "[%s]" % ", ".join("%s#%d" % (_short(e.name, 12), e.stage) for e in rr[2][:8])
        acc.outcome("E:%s:written-file:VIOLATION" % edit[0])
        acc.violation(key, "read + edit + write produced a wrong index: %s; %s; dulwich re-read: %s; %s" % (bad, gtxt, rtxt, summ), me)
        return
    if p2.clean:
        oracle_agree(p2, path, "edited " + summ)
    else:
        acc.outcome("pedantic:" + ",".join(sorted(set(c for c, _ in p2.pedantic))))
    # ---- step 5: dulwich reads the edited file back
    r = dul_read(path)
    if r[0] == "exc" or _entry_lists_diff(intended, r[2]):
        d = diagnose_read(data, p2)
        key = "read:" + d if d else ("read:Index.read:raises-%s" % r[1] if r[0] == "exc" else "read:Index.read:" + _assembly_predicate(intended, r[2]))
        acc.outcome("E:%s:reread:VIOLATION" % edit[0])
        acc.violation(key, "the edited index is not read back as intended (%s); %s" % (
            "raises %s in %s" % r[1:3] if r[0] == "exc" else _entry_lists_diff(intended, r[2])[0], summ), me)
        return
    acc.outcome("E:%s:%s:%s:ok" % (edit[0], source, "v%d->v%d" % (p0.version, p2.version) if p0.version != p2.version else "same-version"))


def _edits_for(specs):
    """The complete edit menu applicable to an index with these entries."""
    by = {}
    for n, st, f in specs:
        by.setdefault(n, {})[st] = f
    inv = {v: k for k, v in SLOTS.items()}
    conflicted = sorted(n for n, st in by.items() if 0 not in st)
    plain = sorted(n for n, st in by.items() if 0 in st)
    out = [("noop",)]
    for p in conflicted:
        have = sorted(by[p])
        slots = [inv[s] for s in have]
        out += [("swap", p), ("rotate", p), ("rewrap", p)]
        for s in slots:
            out += [("resolve", p, s), ("promote-copy", p, s, p + b".r"), ("promote-move", p, s, b"0new"), ("promote-move", p, s, b"zzz"),
                    ("skip-stage", p, s, True), ("skip-stage", p, s, False)]
            if len(slots) > 1:
                out.append(("drop", p, s))
            for d in SLOTS:
                if d != s:
                    out.append(("shift", p, s, d))
                    out.append(("dup", p, s, d))
            for r in plain[:2]:
                out.append(("conflict-from", r, p, s))
    for r in plain:
        out += [("skip", r, True), ("skip", r, False), ("valid", r, True), ("valid", r, False), ("copy", r, r + b".c"), ("rename", r, b"0new"),
                ("rename", r, b"zzz"), ("delete", r), ("self-conflict", r), ("replace-fresh", r)]
    return out


def _e_edit(q):
    out = []
    stage_sets = [s for k in (1, 2, 3) for s in itertools.combinations((1, 2, 3), k)]
    bases = []
    # the conflict family: every stage subset x path x {alone, with neighbours}
    for p in ([b"a", MID[1]] if q else [b"a", b"a/b", MID[1], LONG[2]]):
        for ss in stage_sets:
            for nb in ((), (b"0", p + b"!", b"zy")):
                bases.append([S(p, st) for st in ss] + [S(n) for n in nb])
    # flag-carrying entries (plain and stage entries)
    combos = [(v, x) for v in (False, True) for x in (0, 0x4000, 0x2000, 0x6000)]
    for v1, x1 in combos:
        bases.append([S(b"a", valid=v1, xflags=x1), S(b"b/c", valid=True, xflags=0x2000)])
        bases.append([S(b"c", 1, valid=v1, xflags=x1), S(b"c", 2), S(b"c", 3, xflags=x1), S(b"d", valid=v1)])
    for specs in bases:
        has_x = any(s[2].get("xflags") for s in specs)
        # C git plumbing can set assume-unchanged / skip-worktree on merged entries only, never intent-to-add
        git_ok = all(not s[2].get("xflags", 0) & 0x2000 and (s[1] == 0 or not (s[2].get("xflags") or s[2].get("valid"))) for s in specs)
        for ver in ((3, 4) if has_x else (2, 4)):
            for edit in _edits_for(specs):
                out.append(("ref", ver, specs, edit))
                out.append(("dulwich", ver, specs, edit))
                if git_ok and (not q or ver == 4 or len(specs) <= 3):
                    out.append(("git", ver, specs, edit))
    return out


# --------------------------------------------------------------------------- D: E5 damage

PFX = b"l/" + b"p" * (0xFFD - 2)  # 0xFFD-byte common prefix
LONG = [PFX + b"a", PFX + b"ab", PFX + b"abc", PFX + b"abcd"]  # 0xFFE 0xFFF 0x1000 0x1001

BASES = {
    "v2-one": (2, [S(b"a")]),
    "v2-two": (2, [S(b"dir/file"), S(b"x")]),
    "v2-conflict": (2, [S(b"c", 1), S(b"c", 3), S(b"d")]),
    "v3-xflags": (3, [S(b"a", xflags=0x4000), S(b"bb", xflags=0x2000, valid=True)]),
    "v4-two": (4, [S(b"dir/file"), S(b"dir/other"), S(b"z")]),
    "v2-empty": (2, []),
    "v4-xflags": (4, [S(b"p/q", xflags=0x4000), S(b"p/r")]),
    "v2-name0xFFF": (2, [S(b"0"), S(LONG[1])]),  # thorough only (4 KiB artefact)
    "v4-three-stages": (4, [S(b"c/d", 1), S(b"c/d", 2), S(b"c/d", 3)]),
}
BASES_EXT = {  # built by the reference writer, then read + written by dulwich so that the artefact is dulwich's
    "v2-ext": (2, [S(b"a"), S(b"b/c")], ["raw:XTST:5"]),
    "v4-ext2": (4, [S(b"a"), S(b"ab")], ["raw:XTST:3", "raw:YTST:1"]),
}
_BASE_CACHE = {}


def _base(base_id):
    """A small checksummed index written by dulwich itself + its regions."""
    if base_id in _BASE_CACHE:
        return _BASE_CACHE[base_id]
    I = _D()
    path = _case_file("base-%s.index" % base_id)
    _rm(path)
    if base_id in BASES:
        version, specs = BASES[base_id]
        idx = I.Index(path, read=False, version=version)
        _dulwich_fill(idx, specs)
        idx.write()
    else:
        version, specs, exts = BASES_EXT[base_id]
        with open(path, "wb") as f:
            f.write(R.build(version, _expected(specs), [_ext_payload(k, specs) for k in exts]))
        I.Index(path).write()
    with open(path, "rb") as f:
        data = f.read()
    _rm(path)
    try:
        parsed = R.parse(data)
        regions = parsed.regions
        ok = parsed.clean and parsed.trailer_kind == "sha"
    except R.IndexFormatError:
        regions, ok = [], False
    _BASE_CACHE[base_id] = (data, regions, ok)
    return _BASE_CACHE[base_id]


def case_damage(acc: Acc, base_id, desc):
    """One single-fault mutant of a written index: Index(path) must raise."""
    data, regions, ok = _base(base_id)
    desc = tuple(desc)
    acc.count("D_cases")
    if not ok:
        acc.outcome("D:base-not-valid(reported-by-W)")
        return
    mut = MF.apply(data, desc)
    if mut == data:
        raise HarnessError("no-op mutant %r" % (desc,))
    if len(mut) >= 20 and mut[-20:] == b"\0" * 20:
        acc.outcome("D:excluded:null-trailer")  # legitimately read as a skipHash index
        return
    path = _case_file("d.index")
    with open(path, "wb") as f:
        f.write(mut)
    I = _D()
    try:
        I.Index(path)
    except Exception as e:
        acc.outcome("D:%s:detected:%s" % (desc[0], _exc_name(e)))
        return
    finally:
        _rm(path)
    region = MF.label(desc, regions)
    # Mechanism class, decided on the mutant itself by the reference parser: does the declared
    # structure still fit into the file (then only the checksum can tell), or does it run past
    # the end of the file (the reader meets EOF before it has 20 trailer bytes)?
    try:
        pm = R.parse(mut)
        mech = "checksum-mismatch-only" if pm.trailer_kind == "bad" else "no-checksum-mismatch(%s)" % pm.trailer_kind
    except R.IndexFormatError:
        mech = "structure-runs-past-end-of-file"
    acc.outcome("D:%s:UNDETECTED@%s:%s" % (desc[0], region, mech))
    acc.violation("damage:Index.read:undetected:%s" % mech,
                  "Index(path) reads a damaged index without any error: base %s (%d bytes), fault %s at byte %d%s (%s region); %s" % (
                      base_id, len(data), desc[0], desc[1], "" if desc[2] is None else " arg %s" % (desc[2],), region, mech),
                  rp(case_damage, base_id, list(desc)))


# --------------------------------------------------------------------------- pools

MID = [b"m" * 127, b"m" * 128, b"m" * 129, b"m" * 200]  # the next entry strips 127/128/129/200 bytes in v4
SHORT = [b"a", b"a/b", b"a/c", b"a.b", b"ab", b"a\xffb", b"\xc3\xa9", b"a\nb", b"a\tb", b'a"b', b"a\\b", b" ", b"\x01", b"\x80",
         b"A", b"n", b"z"]
HUGE = [b"h" * 16511, b"h" * 16512 + b"i", b"k" * 16640]  # varint 2->3 byte boundary (thorough)


def _subsets(pool, kmax):
    for k in range(0, kmax + 1):
        yield from itertools.combinations(pool, k)


def _w_paths(q):
    pool = SHORT + MID + LONG
    sets = list(_subsets(pool, 3 if q else 3))
    out = []
    for names in sets:
        specs = [S(n) for n in names]
        for v in ((2, 4) if q else (None, 2, 3, 4)):
            out.append((v, False, specs, False))
        if len(names) <= (1 if q else 2):
            for v in (2, 4):
                out.append((v, True, specs, False))
    out.append((2, False, [S(b"")], False))
    out.append((4, False, [S(b""), S(b"a")], False))
    if not q:
        for names in itertools.combinations(pool, 4):
            for v in (2, 4):
                out.append((v, False, [S(n) for n in names], False))
        for names in _subsets(HUGE + [b"a", b"z"], 3):
            for v in (2, 4):
                out.append((v, False, [S(n) for n in names], False))
    return out


def _w_conflict(q):
    out = []
    paths = [b"a", b"a/b", MID[1], LONG[2]] if not q else [b"a", MID[1], LONG[2]]
    stage_sets = [s for k in (1, 2, 3) for s in itertools.combinations((1, 2, 3), k)]
    for p in paths:
        neigh = [b"0", p + b"!", b"zz"]
        for ss in stage_sets:
            for nb in _subsets(neigh, 3):
                specs = [S(p, st) for st in ss] + [S(n) for n in nb]
                for v in (2, 3, 4):
                    out.append((v, False, specs, len(nb) == 3 and v != 3))
    for s1 in stage_sets:
        for s2 in stage_sets:
            specs = [S(b"c1", st) for st in s1] + [S(b"c1/x", st) for st in s2]
            for v in (2, 4):
                out.append((v, False, specs, False))
    return out


def _w_flags(q):
    out = []
    combos = [(v, x) for v in (False, True) for x in (0, 0x4000, 0x2000, 0x6000)]
    for (v1, x1) in combos:
        for (v2, x2) in combos:
            specs = [S(b"a", valid=v1, xflags=x1), S(b"b/c", valid=v2, xflags=x2)]
            for ver in (None, 2, 3, 4):
                out.append((ver, False, specs, False))
    for (v1, x1) in combos:  # flags on conflict stages and on a long name
        out.append((3, False, [S(b"c", 1, valid=v1, xflags=x1), S(b"c", 2), S(b"c", 3, xflags=x1)], False))
        out.append((4, False, [S(b"c", 2, valid=v1, xflags=x1), S(b"d")], False))
        for ver in (3, 4):
            out.append((ver, False, [S(LONG[2], valid=v1, xflags=x1), S(LONG[3])], False))
    return out


def _w_pad(q):
    out = []
    lens = list(range(1, 18)) + [0xFFE, 0xFFF, 0x1000, 0x1001]
    for n in lens:
        for x in (0, 0x4000):
            name = (b"q" * n)
            for ver in ((2, 4) if not x else (3, 4)):
                out.append((ver, False, [S(name, xflags=x)], False))
                out.append((ver, False, [S(name, xflags=x), S(name + b"/r", xflags=x)], n < 18 and ver != 3))
                out.append((ver, True, [S(b"0"), S(name, xflags=x)], False))
    return out


INT_VALUES = [0, 1, 2**31 - 1, 2**31, 2**32 - 1, 2**32, 2**32 + 1, 2**40, 2**63 - 1]
ID_VALUES = [0, 1, 65535, 2**31, 2**32 - 1]
MODES = [0o100644, 0o100755, 0o120000, 0o160000, 0o100664]
TIMES = [0, 1, 2**31 - 1, 2**31, 2**32 - 1, (0, 0), (1, 1), (1600000000, 999999999), (2**32 - 1, 999999999), (7, 123456789),
         0.0, 1.5, 0.25, 1e9 + 0.5, 2.0**31 + 0.75, 0.1, 1000000000.123456789, 4294967295.5, 0.9999999999999999, 5.999999999999999,
         1234567890.987654321]


def _w_stat(q):
    out = []
    vals = [(f, v) for f in ("dev", "ino", "size") for v in INT_VALUES]
    vals += [(f, v) for f in ("uid", "gid") for v in ID_VALUES]
    vals += [("mode", m) for m in MODES]
    vals += [(f, t) for f in ("ctime", "mtime") for t in TIMES]
    vals += [("sha", b"0" * 40), ("sha", b"f" * 40)]
    for f, v in vals:
        for ver in (2, 4):
            out.append((ver, False, [S(b"s", **{f: v})], False))
            out.append((ver, False, [S(b"a"), S(b"s", **{f: v}), S(b"t")], False))
    # the same through index_entry_from_stat() (field widths as os.stat() delivers them)
    for f, v in [(f, v) for f in ("dev", "ino", "size") for v in INT_VALUES] + \
                [(f, t) for f in ("ctime", "mtime") for t in ((0, 0), (2**32 - 1, 999999999), (1600000000, 1), 1.5, 1000000000.123456789)]:
        out.append((2, False, [S(b"st", via_stat=True, **{f: v})], False))
    for m in (0o100644, 0o100755, 0o120000):
        out.append((4, False, [S(b"st", via_stat=True, mode=m), S(b"su", via_stat=True, mode=m)], False))
    # all 32-bit-exceeding stat fields at once, as os.stat() can deliver them
    out.append((2, False, [S(b"big", dev=2**32 + 5, ino=2**40 + 3, size=2**32 + 9)], False))
    out.append((2, False, [S(b"big", dev=2**32 + 5, ino=2**40 + 3)], False))
    return out


EXT_LISTS = [
    [], ["TREE"], ["TREE-invalid"], ["REUC"], ["UNTR"], ["raw:XTST:5"], ["raw:XTST:1"], ["raw:XTST:0"], ["raw:XTST:4", "raw:YTST:9"],
    ["TREE", "raw:XTST:5", "REUC"], ["raw:XTST:5", "UNTR"], ["raw:Xtst:5"], ["raw:X1AB:5"], ["raw:XTS_:2"], ["raw:xtst:5"],
    ["raw:EOIX:24"], ["raw:XTST:300"],
]


def _r_ext(q):
    out = []
    esets = [[], [S(b"a")], [S(b"a"), S(b"a/b", xflags=0x4000)], [S(b"c", 1), S(b"c", 2), S(b"d")]]
    for exts in EXT_LISTS:
        for specs in esets:
            has_x = any(s[2].get("xflags") for s in specs)
            for ver in ((3, 4) if has_x else (2, 4)):
                for trailer in ("sha", "zero"):
                    out.append((ver, specs, exts, trailer, "max"))
    return out


def _r_paths(q):
    pool = SHORT + MID + LONG
    out = []
    for names in _subsets(pool, 3):
        specs = [S(n) for n in names]
        out.append((2, specs, [], "sha", "max"))
        out.append((4, specs, [], "sha", "max"))
        if names and (not q or len(names) <= 2):
            out.append((4, specs, [], "sha", "none"))
    stage_sets = [s for k in (1, 2, 3) for s in itertools.combinations((1, 2, 3), k)]
    for p in (b"a", MID[1], LONG[2], LONG[3]):
        for ss in stage_sets:
            for ver in (2, 4):
                out.append((ver, [S(p, st) for st in ss] + [S(b"0"), S(b"zz")], [], "sha", "max"))
                out.append((ver, [S(p, st) for st in ss] + [S(p + b"/x", st) for st in ss], [], "sha", "max"))
    for f, v in [(f, v) for f in ("dev", "ino", "size", "uid", "gid") for v in (0, 2**31, 2**32 - 1)] + \
                [(f, t) for f in ("ctime", "mtime") for t in ((0, 0), (2**32 - 1, 999999999), (2**31, 1))] + [("mode", m) for m in MODES]:
        for ver in (2, 4):
            out.append((ver, [S(b"a"), S(b"s", **{f: v})], [], "sha", "max"))
    for valid in (False, True):
        for x in (0, 0x2000, 0x4000, 0x6000):
            for ver in (3, 4):
                out.append((ver, [S(b"a", valid=valid, xflags=x), S(LONG[2], valid=valid, xflags=x), S(b"z")], [], "sha", "max"))
    if not q:
        for names in _subsets(HUGE + [b"a", b"z"], 3):
            for ver in (2, 4):
                out.append((ver, [S(n) for n in names], [], "sha", "max"))
        for names in itertools.combinations(pool, 4):
            for ver in (2, 4):
                out.append((ver, [S(n) for n in names], [], "sha", "max"))
    return out


def _g_info(q):
    out = []
    pool = [b"a", b"a/b", b"a.b", b"ab", b"a\xffb", b"\xc3\xa9", b"a\nb", b"a\tb", b'a"b', b" ", b"z"] + MID + LONG
    for names in _subsets(pool, 3):
        if not names:
            continue
        items = [(0o100644, 0, n) for n in names]
        for v in (2, 4):
            out.append((v, items, [], "index-info"))
    stage_sets = [s for k in (1, 2, 3) for s in itertools.combinations((1, 2, 3), k)]
    for p in (b"a", MID[1], LONG[1], LONG[2], LONG[3]):
        for ss in stage_sets:
            for v in (2, 4):
                out.append((v, [(0o100644, st, p) for st in ss] + [(0o100755, 0, b"0"), (0o120000, 0, p + b"!"), (0o160000, 0, b"zz")], [], "index-info"))
    flagsets = [[], [("--assume-unchanged", [b"a"])], [("--skip-worktree", [b"a"])], [("--skip-worktree", [b"a", b"b/c"]), ("--assume-unchanged", [b"b/c"])]]
    for fo in flagsets:
        for v in (2, 3, 4):
            out.append((v, [(0o100644, 0, b"a"), (0o100755, 0, b"b/c"), (0o100644, 0, LONG[2])], fo, "index-info"))
            out.append((v, [(0o100644, 0, b"a"), (0o100755, 0, b"b/c"), (0o100644, 0, b"k" * 200)], fo, "cacheinfo"))
    for v in (2, 3, 4):
        out.append((v, [(0o100644, 0, LONG[2]), (0o100644, 0, b"z")], [("--skip-worktree", [LONG[2]])], "index-info"))
    return out


def _g_tree(q):
    out = []
    states = (None, b"x", b"y")
    paths = [b"p", MID[3], LONG[2]] if not q else [b"p", LONG[2]]
    for p in paths:
        for a, o, t in itertools.product(states, repeat=3):
            trees = [[(0o100644, b"keep", b"k")] + ([(0o100644, p, s)] if s else []) for s in (a, o, t)]
            for v in ((2, 4) if p == b"p" or not q else (4,)):
                out.append((v, "merge3", trees))
    for v in (2, 4):
        out.append((v, "one", [[(0o100644, b"a", b"1"), (0o100755, b"d/b", b"2"), (0o120000, b"d/e/l", b"3"), (0o160000, b"sub", b"4")]]))
        out.append((v, "one", [[(0o100644, LONG[0], b"1"), (0o100644, LONG[3], b"2"), (0o100644, b"z", b"3")]]))
        out.append((v, "one", [[]]))
        out.append((v, "prefix", [[(0o100644, b"a", b"1")], [(0o100644, b"a", b"1"), (0o100644, b"m" * 150, b"2")]]))
    return out


def _g_wt(q):
    return [(s, v) for s in WT_SCENARIOS for v in (2, 3, 4)]


def _d_tasks(q):
    out = []
    ids = list(BASES) + list(BASES_EXT)
    if q:
        ids = [i for i in ids if i != "v2-name0xFFF"]
    for b in ids:
        data, regions, ok = _base(b)
        out.append((b, list(MF.descriptors(data))))
    return out


# --------------------------------------------------------------------------- plumbing


def work(task):
    kind, items = task
    acc = Acc()
    import multiprocessing
    import signal

    if multiprocessing.current_process().name != "MainProcess":
        # the runner's SIGTERM handler (sys.exit) is inherited by pool workers and makes
        # Pool.terminate() dead-lock after a harness error; workers just die on SIGTERM
        signal.signal(signal.SIGTERM, signal.SIG_DFL)
    if kind == "W":
        for version, skip, specs, fsck in items:
            case_write(acc, version, skip, specs, fsck)
    elif kind == "R":
        for version, specs, exts, trailer, pfx in items:
            case_read_built(acc, version, specs, exts, trailer, pfx)
    elif kind == "GI":
        for version, its, flagops, how in items:
            case_git_info(acc, version, its, flagops, how)
    elif kind == "GT":
        for version, mode, trees in items:
            case_git_readtree(acc, version, mode, trees)
    elif kind == "GW":
        for scenario, version in items:
            case_git_worktree(acc, scenario, version)
    elif kind == "E":
        for source, version, specs, edit in items:
            case_edit(acc, source, version, specs, edit)
    elif kind == "D":
        for base_id, descs in items:
            for d in descs:
                case_damage(acc, base_id, d)
    else:
        raise AssertionError(kind)
    return acc


def run(ctx):
    q = ctx.quick
    J = ctx.jobs * 3
    tasks = []
    fam = {}

    def add(kind, name, items, parts):
        fam[name] = len(items)
        for part in split(ctx.order(items), parts):
            tasks.append((kind, part))

    add("W", "W.paths", _w_paths(q), J * 2)
    add("W", "W.conflict", _w_conflict(q), J)
    add("W", "W.flags", _w_flags(q), J)
    add("W", "W.pad", _w_pad(q), J)
    add("W", "W.stat", _w_stat(q), J)
    add("R", "R.paths", _r_paths(q), J * 2)
    add("R", "R.ext", _r_ext(q), J)
    add("GI", "G.info", _g_info(q), J)
    add("GT", "G.tree", _g_tree(q), J)
    add("GW", "G.wt", _g_wt(q), ctx.jobs * 2)
    add("E", "E.edit", _e_edit(q), J * 2)
    dcount = {}
    for base_id, descs in _d_tasks(q):
        fam["D." + base_id] = len(descs)
        for k, _, _ in descs:
            dcount[k] = dcount.get(k, 0) + 1
        for part in split(ctx.order(descs), 6):
            tasks.append(("D", [(base_id, part)]))

    tasks = ctx.order(tasks)
    pmap_acc(work, tasks, ctx.acc, jobs=ctx.jobs)

    n = ctx.acc.n
    total = sum(v for k, v in n.items() if k.endswith("_cases"))
    classes = ctx.acc.classes
    ctx.level = "exploration"
    ctx.coverage.update(
        evaluations=total,
        distinct_nontrivial=len([c for c in classes if re.match(r"(W|R|G\.\w+(\.[\w-]+)?):v\d", c)]),
        rule=(
            "E4 bounded-exhaustive over index contents + E5 single-fault damage. W: every subset of <=3 names of a %d-name pool "
            "(ordering probes, non-UTF-8/control bytes, 127/128/129/200-byte names for the v4 strip varint, 0xFFE/0xFFF/0x1000/0x1001-byte "
            "names sharing a 0xFFD prefix) x versions x skipHash; every stage subset x paths x neighbours; all flag combinations on two "
            "entries x versions {None,2,3,4}; every name length 1..17 and 0xFFE..0x1001 x extended word; one stat field at a time over %r, "
            "modes %r, %d time values (int/float/(s,ns)). R: the same name subsets serialised by the reference writer (v2, v4 maximal "
            "prefix, v4 no prefix) and %d extension lists x entry sets x versions x sha/null trailer. G: C git update-index --index-info/"
            "--cacheinfo (versions 2,3,4, stages, flags), read-tree incl. all 27 three-way states of a path, real work trees incl. "
            "sparse-checkout. E: read -> one edit from a %d-operation menu re-using parsed entry objects -> write, for every stage subset x paths x "
            "neighbours and 16 flag-carrying indexes x versions x {reference-, git-, dulwich-built}. D: every truncation, bit flip and byte:=00/FF/+1/-1 of %d small dulwich-written indexes. "
            "distinct_nontrivial = distinct structural classes (family x version x entry count x name-length class x strip class x "
            "stages x flags x extensions x trailer) observed." % (
                len(SHORT + MID + LONG), [hex(v) for v in INT_VALUES], [oct(m) for m in MODES], len(TIMES), len(EXT_LISTS),
                len(EDIT_OPS), len([k for k in fam if k.startswith("D.")]))
        ),
        exhaustive=True,
        bounds={"families": fam, "name_subset_size": 3 if q else 4, "damage_mutants_by_kind": dcount,
                "thorough_extras": "versions {None,2,3,4} x skipHash on <=2 names, all 4-subsets of the name pool (W and R, v2 and v4), v4 without prefix sharing for all 3-subsets, 16511/16512/16640-byte names, 3 path states in G.tree, a 4 KiB damage base (0xFFF-byte name)"},
    )
    struct_re = re.compile(r"(W|R|G\.\w+(\.[\w-]+)?):v\d")
    ctx.coverage["result_classes"] = {c: classes[c] for c in sorted(classes) if not struct_re.match(c)}
    for c in sorted(classes):
        if "VIOLATION" in c or "UNDETECTED" in c or c.startswith("pedantic"):
            ctx.acc.sample({"class": c, "count": classes[c]}, cap=12)
    ctx.assumptions += [
        "reference index model engines/refmodels/indexfile.py written from gitformat-index(5); every file it accepts without remark is also "
        "listed by C git 2.39.5 (ls-files --stage --debug -z) and the two listings must be equal, else HARNESS-ERROR",
        "uid/gid and times are enumerated within 32 bits only (the statement names >32-bit sizes, inode and device numbers)",
        "float times: on-disk nsec may be the floor or the ceiling of the exact value of the double",
        "TREE/REUC/UNTR/sdir are known to dulwich; dropping TREE/REUC on rewrite is allowed (the statement protects unknown extensions)",
        "an index carrying a mandatory (lower-case) extension C git itself refuses is outside the statement: no verdict",
        "C git 2.39.5 ls-files does not verify the trailer or the entry order; those are decided by the reference model, and by git fsck on a subset of W cases",
        "E5 mutants whose last 20 bytes are all zero are legitimately a skipHash index and are excluded (count reported as D:excluded:null-trailer)",
        "work-tree scenarios carry real (non-deterministic) stat data; verdicts are differential so they do not depend on the values",
    ]


def replay(ctx, obj):
    import sys

    return replay_generic(sys.modules[__name__], ctx, obj)
