"""C12 — tree building, flattening, diffing and patching are mutually consistent and match C git.

Bounded-exhaustive enumeration (engine E4) over flat listings [(path, mode, id)] drawn from

    paths  {a, a.b, a/b, a/b/c, a-, a0, a/c, b}   (file/directory conflicts a <-> a/b <-> a/b/c, names that
                                                  differ exactly where '/' (0x2f) sorts: '-' '.' '/' '0')
    kinds  {100644, 100755, 120000} x {blob X, blob Y}  +  160000 x {commit G1, commit G2}   (+ blob Z ~ X)

(L) every *consistent* listing of <= n entries, in EVERY input order:
        commit_tree -> tree id == reference model (== `git mktree --batch`), every stored tree object byte
        for byte git's (canonical entry order by an independent comparator), iter_tree_contents == the
        listing, tree_lookup_path on every pool path and directory.
(P) every ordered PAIR (A, B) of listings of a family (see families()):
        tree_changes under the flag cube want_unchanged x include_trees x change_type_same, with path
        filters from the same pool, with tree ids None for the empty side, and through RenameDetector
        (default / find_copies_harder / rewrite_threshold): the diff applied to flatten(A) yields
        flatten(B), each path at most once per side, every mentioned entry really is in A resp. B, the
        diff equals the reference raw diff which in turn equals `git diff-tree -r [-t] --raw -z
        --no-renames --stdin [-- paths]` record for record (status, path, modes, ids); rename output
        with renames/copies taken apart again equals the plain diff; commit_tree_changes(A, changes) ==
        tree id of B for every order of the change list (<= 3 changes: all permutations).

Besides the squares over the path pool there are two generated families (round 3): `twins` (every assignment of
equal / different / absent subtrees to the directories a, a-, c/x, c/y: the same pair of subtree ids at several
paths) and `dupsrc` (2-3 files with one blob id in A, each deleted / kept / modified / chmod in B, 0-3 new copies).

Both implementations are exercised: pass 1 binds the Rust extensions rebuilt from the working tree
(common.preload_rust), pass 2 runs in fresh worker processes where the extension imports are blocked
before dulwich.objects / dulwich.diff_tree are imported (common.block_rust).

The reference model (engines/refmodels/gittree.py) is the oracle for everything; C git checks the
reference model on every listing (mktree) and every pair (diff-tree, batch mode: one process per flag
set per task) - a disagreement between the two is a HarnessError, never a violation.

Violation keys:  <area>:<site>(<impl>[,flags]):<predicate>   area in {build, flatten, lookup, diff, patch}.
A pair is reported once per predicate, under the simplest flag set that shows it.
"""

from __future__ import annotations

import hashlib
import itertools
import os
import sys

from engines import common
from engines.common import Acc, HarnessError, fresh_dir, git, pmap_acc, replay_generic, rp, split
from engines.enumerate import subsets
from engines.refmodels import gittree as gt

IMPLS = ("rust", "py")

# --------------------------------------------------------------------------- alphabets

PATHS = (b"a", b"a.b", b"a/b", b"a/b/c", b"a-", b"a0", b"a/c", b"b")
LOOKUP_PATHS = PATHS  # 'a' and 'a/b' are also the directories of the pool

BLOB_X = b"".join(b"alpha line %d of the first blob\n" % i for i in range(10))
BLOB_Y = b"".join(b"%d: second blob, nothing in common\n" % (i * 7919 + 13) for i in range(10))
BLOB_Z = BLOB_X.replace(b"line 9 of", b"line nine in")  # 9 of 10 lines shared with X
X = gt.object_id(b"blob", BLOB_X)
Y = gt.object_id(b"blob", BLOB_Y)
Z = gt.object_id(b"blob", BLOB_Z)
G1 = hashlib.sha1(b"C12 gitlink target 1").hexdigest().encode()
G2 = hashlib.sha1(b"C12 gitlink target 2").hexdigest().encode()

KIND = {
    "fX": (0o100644, X), "fY": (0o100644, Y), "xX": (0o100755, X), "xY": (0o100755, Y),
    "lX": (0o120000, X), "lY": (0o120000, Y), "g1": (0o160000, G1), "g2": (0o160000, G2),
    "fZ": (0o100644, Z),
}
KIND_NAME = {v: k for k, v in KIND.items()}
ALL8 = ("fX", "fY", "xX", "xY", "lX", "lY", "g1", "g2")


def listings(max_entries, kinds, min_entries=0):
    """Every consistent listing with min..max entries over PATHS x kinds; fewest entries first,
    then path sets in pool order, then kinds in the given order."""
    ks = [KIND[k] for k in kinds]
    out = []
    for ps in subsets(PATHS, max_entries, min_entries):
        if not gt.consistent([(p, 0, b"") for p in ps]):
            continue
        for combo in itertools.product(ks, repeat=len(ps)):
            out.append(tuple((p, m, s) for p, (m, s) in zip(ps, combo)))
    return out


SIBLING_DIR_PATHS = (b"a/x", b"a-/x", b"a.b/x", b"a0/x", b"a/b/x", b"a", b"a.b", b"a-")


def sibling_dir_listings(max_entries):
    """Listings whose tree has sibling *directories* named a, a-, a.b, a0 (one name a proper prefix of the other,
    next byte sorting before or after '/'): the 'directory sorts as name/' rule between two directories."""
    out = []
    for ps in subsets(SIBLING_DIR_PATHS, max_entries, 2):
        if not gt.consistent([(p, 0, b"") for p in ps]):
            continue
        out.append(tuple((p, 0o100644, X) for p in ps))
    return out


TWIN_SLOTS = (b"a", b"a-", b"c/x", b"c/y")  # two directories at depth 1 (names around '/'), two nested at depth 2
TWIN_CONTENTS = {
    "-": (),
    "X": ((b"f", "fX"),),
    "Y": ((b"f", "fY"),),
    "XX": ((b"f", "fX"), (b"g", "fX")),
}


def twin_listings(contents):
    """Every assignment of one of `contents` (names in TWIN_CONTENTS; "-" = directory absent) to the four
    directory slots: the square contains every way in which two, three or four directories hold the same
    subtree in A and the same (or a different, or diverging) subtree in B - at depth 1, nested, and across depths."""
    out = []
    for combo in itertools.product(contents, repeat=len(TWIN_SLOTS)):
        L = []
        for slot, c in zip(TWIN_SLOTS, combo):
            for name, kind in TWIN_CONTENTS[c]:
                L.append((slot + b"/" + name,) + KIND[kind])
        out.append(tuple(sorted(L)))
    return out


DUP_SOURCES = (b"a", b"a.b", b"b")
DUP_TARGETS = (b"a0", b"c/n1", b"c/n2")


def dupsrc_listings():
    """(A-listings, B-listings) for duplicate-content rename sources.  A: two or three of the source paths, all
    blob X.  B: every source path independently absent / kept (fX) / modified (fY) / chmod (xX), plus every subset
    of three new paths holding X - so for one blob id the sources are any mix of deleted, modified and unchanged
    files, in every path order, with 0..3 places where the content turns up again."""
    A = []
    for ps in subsets(DUP_SOURCES, 3, 2):
        A.append(tuple((p,) + KIND["fX"] for p in ps))
    B = []
    for combo in itertools.product(("-", "fX", "fY", "xX"), repeat=len(DUP_SOURCES)):
        base = [(p,) + KIND[k] for p, k in zip(DUP_SOURCES, combo) if k != "-"]
        for ts in subsets(DUP_TARGETS):
            B.append(tuple(sorted(base + [(t,) + KIND["fX"] for t in ts])))
    return A, B


def family_lists(fam):
    """-> (row listings, column listings) of a family; the pairs are rows x columns (a square unless stated)."""
    name, n, kinds, _cfg = fam
    if n == "twins":
        L = twin_listings(kinds)
        return L, L
    if n == "dupsrc":
        return dupsrc_listings()
    if n == "dupsrc-rev":
        A, B = dupsrc_listings()
        return B, A
    L = listings(n, kinds)
    return L, L


def show(listing):
    return "{" + ", ".join("%s:%s" % (p.decode(), KIND_NAME.get((m, s), "%o/%s" % (m, s[:6].decode()))) for p, m, s in listing) + "}"


# --------------------------------------------------------------------------- families (the declared spaces)

CUBE = [(wu, it, cts) for wu in (False, True) for it in (False, True) for cts in (False, True)]
F1 = [(p,) for p in PATHS]
F2 = [tuple(c) for c in itertools.combinations(PATHS, 2)]
RD_VARIANTS = {
    "default": {},
    "find_copies_harder": {"find_copies_harder": True},
    "rewrite_threshold": {"rewrite_threshold": 50},
}

CFGSETS = {
    # plain: (wu, it, cts) triples; filt: (filters, it) pairs; rd: (variant, it, wu); rdfilt: filters combined with the
    # default RenameDetector; none_id: also pass None for
    # an empty side; patch: "all" = every permutation of <=3 changes (else 4 fixed orders), "two" = the 4 fixed orders
    "full": {  # everything about single transitions
        "plain": CUBE,
        "filt": [(f, it) for f in F1 for it in (False, True)],
        "rd": [(v, it, wu) for v in ("default", "find_copies_harder", "rewrite_threshold") for it in (False, True) for wu in (False, True)],
        "rdfilt": F1,
        "none_id": True,
        "patch": "all",
    },
    "filters2": {  # everything incl. two-element path filters (thorough, shapes)
        "plain": CUBE,
        "filt": [(f, it) for f in F1 + F2 for it in (False, True)],
        "rd": [(v, it, wu) for v in ("default", "find_copies_harder", "rewrite_threshold") for it in (False, True) for wu in (False, True)],
        "rdfilt": F1 + F2,
        "none_id": True,
        "patch": "all",
    },
    "mid": {
        "plain": CUBE,
        "filt": [(f, False) for f in F1],
        "rd": [("default", False, False), ("default", True, False), ("default", False, True)],
        "rdfilt": F1,
        "none_id": True,
        "patch": "all",
    },
    "mid2": {  # mid + every two-element path filter (a filter that sorts between a directory and its contents)
        "plain": CUBE,
        "filt": [(f, False) for f in F1 + F2],
        "rd": [("default", False, False), ("default", True, False), ("default", False, True)],
        "rdfilt": F1,
        "none_id": True,
        "patch": "all",
    },
    "cube": {
        "plain": CUBE,
        "filt": [],
        "rd": [("default", False, False)],
        "rdfilt": [],
        "none_id": False,
        "patch": "all",
    },
    "lean": {
        "plain": [(False, False, False), (False, True, True)],
        "filt": [],
        "rd": [("default", False, False)],
        "rdfilt": [],
        "none_id": False,
        "patch": "two",
    },
    "twin": {  # the cube (want_unchanged switches pruning off), one filter into a twin, three detector runs
        "plain": CUBE,
        "filt": [((b"a",), False), ((b"a-",), True)],
        "rd": [("default", False, False), ("default", False, True), ("find_copies_harder", False, False)],
        "rdfilt": [],
        "none_id": False,
        "patch": "two",
    },
    "dupsrc": {  # every detector variant, with and without want_unchanged
        "plain": [(False, False, False)],
        "filt": [],
        "rd": [(v, False, wu) for v in ("default", "find_copies_harder", "rewrite_threshold") for wu in (False, True)] + [("default", True, False)],
        "rdfilt": [],
        "none_id": False,
        "patch": "two",
    },
    "similar": {
        "plain": [(False, False, False)],
        "filt": [],
        "rd": [("default", False, False), ("default", True, False), ("find_copies_harder", False, False), ("rewrite_threshold", False, False)],
        "rdfilt": [],
        "none_id": False,
        "patch": "two",
    },
}


def families(quick):
    """[(name, max entries per listing | generator name, kinds | generator argument, config set)].  Every family is
    the FULL product rows x columns of family_lists() - the full square (all ordered pairs) of one listing set except
    for dupsrc / dupsrc-rev; the bounds are sized by measured cost (~0.2 ms per tree_changes call)."""
    if quick:
        return [
            ("kinds1", 1, ALL8, "full"),  # 65 listings: every kind -> kind transition, file <-> dir
            ("shapes", 3, ("fX",), "mid2"),  # 69 listings: every shape pair, one kind (=> renames everywhere)
            ("two", 2, ("fX", "fY", "lX"), "lean"),  # 241 listings
            ("similar", 2, ("fX", "fZ"), "similar"),  # 113 listings: inexact renames
            ("twins", "twins", ("-", "X", "Y"), "twin"),  # 81 listings: directories with equal subtrees (see twin_listings)
            ("dupsrc", "dupsrc", None, "dupsrc"),  # 4 x 512: several rename sources with one blob id (see dupsrc_listings)
            ("dupsrc-rev", "dupsrc-rev", None, "dupsrc"),  # 512 x 4: the same pairs backwards
        ]
    return [
        ("kinds1", 1, ALL8, "filters2"),
        ("shapes", 3, ("fX",), "filters2"),
        ("two", 2, ("fX", "fY", "lX"), "mid"),
        ("two-kinds5", 2, ("fX", "fY", "xX", "lX", "g1"), "lean"),  # 641 listings
        ("three", 3, ("fX", "fY"), "cube"),  # 401 listings
        ("similar", 2, ("fX", "fZ", "fY"), "similar"),  # 241 listings
        ("twins", "twins", ("-", "X", "Y", "XX"), "twin"),  # 256 listings
        ("dupsrc", "dupsrc", None, "dupsrc"),
        ("dupsrc-rev", "dupsrc-rev", None, "dupsrc"),
    ]


def listing_bound(quick):
    return 3 if quick else 4


# --------------------------------------------------------------------------- binding one implementation

_S = {"impl": None}
_RUST_MODS = {}
_EXT = ("_pack", "_objects", "_diff_tree")


class State:
    pass


def ensure_impl(impl):
    """Bind dulwich with the Rust extensions built from the working tree ('rust') or with the
    extension imports blocked ('py').  In a fresh worker this happens before dulwich.objects is
    imported; switching inside one process (replay, --jobs 1) purges and re-imports the pure-Python
    dulwich modules around saved extension module objects."""
    if _S["impl"] == impl:
        return _S["state"]
    if impl not in IMPLS:
        raise HarnessError("unknown implementation %r" % (impl,))
    for name in [m for m in sys.modules if m.startswith("dulwich.")]:
        short = name[len("dulwich."):]
        if short in _EXT:
            if sys.modules[name] is not None:
                _RUST_MODS[short] = sys.modules[name]
        del sys.modules[name]
    import dulwich

    for attr in [a for a, v in list(vars(dulwich).items()) if getattr(v, "__name__", "").startswith("dulwich.") and type(v) is type(sys)]:
        delattr(dulwich, attr)
    if impl == "rust":
        for short, mod in _RUST_MODS.items():
            sys.modules["dulwich." + short] = mod
        paths = common.preload_rust()
    else:
        paths = None
        common.block_rust()
    import dulwich.diff_tree as DT
    import dulwich.index as IX
    import dulwich.object_store as OS
    import dulwich.objects as OB

    is_py = (OB.sorted_tree_items is OB._sorted_tree_items_py, OB.parse_tree is OB._parse_tree_py,
             DT._merge_entries is DT._merge_entries_py, DT._is_tree is DT._is_tree_py, DT._count_blocks is DT._count_blocks_py)
    if impl == "py" and not all(is_py):
        raise HarnessError("pure-Python pass bound an extension function: %r" % (is_py,))
    if impl == "rust":
        if any(is_py):
            raise HarnessError("Rust pass bound a pure-Python fallback: %r" % (is_py,))
        for short in ("_objects", "_diff_tree"):
            f = getattr(sys.modules["dulwich." + short], "__file__", None)
            if f != paths[short]:
                raise HarnessError("dulwich.%s loaded from %r, not the rebuilt %r" % (short, f, paths[short]))

    class TracingStore(OS.MemoryObjectStore):
        trace = None

        def __getitem__(self, name):
            if self.trace is not None:
                self.trace.append(name)
            return OS.MemoryObjectStore.__getitem__(self, name)

    st = State()
    st.impl = impl
    st.DT, st.IX, st.OS, st.OB = DT, IX, OS, OB
    st.store = TracingStore()
    for data, oid in ((BLOB_X, X), (BLOB_Y, Y), (BLOB_Z, Z)):
        b = OB.Blob.from_string(data)
        if b.id != oid:
            raise HarnessError("blob id mismatch")
        st.store.add_object(b)
    st.have = set()  # tree ids put into the store from reference bytes
    st.gitdir = None
    st.git_written = set()
    st.fams = {}
    _S["impl"] = impl
    _S["state"] = st
    return st


# --------------------------------------------------------------------------- C git plumbing (batch)


def git_dir(st):
    if st.gitdir is None:
        d = fresh_dir("git")
        git(["init", "-q", "--bare", d])
        for data, oid in ((BLOB_X, X), (BLOB_Y, Y), (BLOB_Z, Z)):
            got = git(["hash-object", "-w", "--stdin"], cwd=d, input=data).stdout.strip()
            if got != oid:
                raise HarnessError("ORACLE-DISAGREEMENT: blob id %r vs git %r" % (oid, got))
        st.gitdir = d
    return st.gitdir


def git_write_trees(st, builts):
    """All tree objects of the given reference builds -> one `git mktree --batch`; git's ids must
    equal the reference model's."""
    d = git_dir(st)
    text = []
    want = []
    for b in builts:
        for path in b.order:  # children first
            oid, _body, entries = b.trees[path]
            if oid in st.git_written or not entries:
                continue
            st.git_written.add(oid)
            text.append(gt.mktree_text(entries) + b"\n")
            want.append(oid)
    if not want:
        return 0
    out = git(["mktree", "--batch"], cwd=d, input=b"".join(text)).stdout.split()
    if out != want:
        bad = [(w, g) for w, g in zip(want, out) if w != g][:3]
        raise HarnessError("ORACLE-DISAGREEMENT: reference tree ids differ from git mktree: %r (%d vs %d ids)" % (bad, len(want), len(out)))
    return len(want)


def git_diff(st, pairs, flags, filters=None):
    """pairs: [(tree1, tree2)] -> list (aligned with pairs) of parsed raw lines."""
    args = ["--literal-pathspecs", "diff-tree", "-r", "--raw", "-z", "--no-abbrev"] + list(flags) + ["--stdin"]
    if filters:
        args += ["--"] + [os.fsdecode(f) for f in filters]
    inp = b"".join(b"%s %s\n" % p for p in pairs)
    out = git(args, cwd=git_dir(st), input=inp, timeout=900).stdout
    res = gt.parse_diff_tree_z(out)
    if [h for h, _ in res] != list(pairs):
        raise HarnessError("git diff-tree --stdin answered %d of %d pairs / headers differ" % (len(res), len(pairs)))
    return [lines for _, lines in res]


RD_GIT_FLAGS = {"default": ["-C"], "find_copies_harder": ["-C", "--find-copies-harder"], "rewrite_threshold": ["-C", "-B50%"]}


def gitkey_plain(it, filters):
    return ("plain", it, filters)


def gitkey_rd(variant, it):
    return ("rd", variant, it)


def git_flags(key):
    if key[0] == "plain":
        return (["-t"] if key[1] else []) + ["--no-renames"], key[2]
    return (["-t"] if key[2] else []) + RD_GIT_FLAGS[key[1]], None


def needed_gitkeys(cfg):
    keys = []
    for it in sorted({it for _wu, it, _c in cfg["plain"]}):
        keys.append(gitkey_plain(it, None))
    for f, it in cfg["filt"]:
        keys.append(gitkey_plain(it, f))
    for v, it, _wu in cfg["rd"]:
        k = gitkey_rd(v, it)
        if k not in keys:
            keys.append(k)
        if gitkey_plain(it, None) not in keys:
            keys.append(gitkey_plain(it, None))
    return keys


# --------------------------------------------------------------------------- helpers on listings


class Info:
    """Reference view of one listing."""

    __slots__ = ("L", "built", "tid", "fa", "fta", "dirs", "fta_root")

    def __init__(self, L):
        self.L = L
        self.built = gt.build(L)
        self.tid = self.built.root
        self.fa = gt.flat(L)
        self.fta = gt.flat_with_trees(L, self.built)
        self.dirs = {p: t[0] for p, t in self.built.trees.items()}
        self.fta_root = dict(self.fta)
        self.fta_root[b""] = (gt.DIR, self.tid)
        if gt.apply_records({}, gt.raw_diff({}, self.fa)) != self.fa:
            raise HarnessError("reference model: apply(diff({}, L)) != L")


def put_reference_trees(st, info, acc=None):
    """Store git's exact tree objects (reference bytes, verified by mktree) so that the diff and patch
    oracles do not depend on commit_tree."""
    for path in info.built.order:
        oid, body, _ = info.built.trees[path]
        if oid in st.have:
            continue
        t = st.OB.Tree.from_string(body)
        if t.id != oid:
            if acc is None:
                raise HarnessError("Tree.from_string(reference bytes).id differs from the reference id")
            acc.violation("build:Tree.from_string(%s):id-of-git-tree-bytes-differs-from-git" % st.impl,
                          "%s: tree %r parsed from git's bytes has id %s, git says %s" % (show(info.L), path, t.id.decode(), oid.decode()),
                          rp(case_listing, st.impl, info.L))
        st.store.add_object(t)
        st.have.add(oid)


def exc_name(e):
    return type(e).__name__


# --------------------------------------------------------------------------- (L) one listing


def case_listing(acc: Acc, impl, listing, use_git=True):
    """One listing, every input order: build / stored order / flatten / lookup."""
    st = ensure_impl(impl)
    L = tuple(tuple(e) for e in listing)
    info = Info(L)
    if use_git:
        git_write_trees(st, [info.built])
    _listing_checks(acc, st, info)


def diagnose_build(store, tid, info):
    """Why does dulwich's tree differ from git's?  Walks dulwich's objects from the root and names
    the first difference."""
    stack = [(b"", tid)]
    while stack:
        path, oid = stack.pop()
        want = info.built.trees.get(path)
        if want is None:
            return "unexpected-subtree"
        if oid == want[0]:
            continue
        try:
            ents = gt.parse_raw(store[oid].as_raw_string())
        except KeyError:
            return "tree-object-not-stored"
        except Exception as e:  # noqa: BLE001
            return "tree-object-unreadable-" + exc_name(e)
        wents = want[2]
        if sorted(ents) == sorted(wents):
            return "same-entries-different-bytes" if gt.is_canonically_ordered(ents) else "entry-order-not-canonical"
        if sorted(n for n, _m, _s in ents) != sorted(n for n, _m, _s in wents):
            return "entry-names-differ"
        wmap = {n: (m, s) for n, m, s in wents}
        for n, m, s in ents:
            if wmap[n] == (m, s):
                continue
            if wmap[n][0] != m:
                return "entry-mode-differs"
            if gt.is_dir_mode(m):
                stack.append((path + b"/" + n if path else n, s))
            else:
                return "entry-id-differs"
    return "unexplained"


def _listing_checks(acc, st, info):
    impl = st.impl
    L = info.L
    OS, IX = st.OS, st.IX
    nperm = 0
    reported = set()

    def viol(key, msg, order):
        if key in reported:
            return
        reported.add(key)
        acc.violation(key, "%s (input order %s): %s" % (show(L), [p.decode() for p, _, _ in order], msg), rp(case_listing, impl, L))

    for order in itertools.permutations(L):
        nperm += 1
        acc.count("listing_orders")
        store = OS.MemoryObjectStore()
        try:
            tid = IX.commit_tree(store, [(p, s, m) for p, m, s in order])
        except Exception as e:  # noqa: BLE001
            viol("build:commit_tree(%s):raises-%s" % (impl, exc_name(e)), repr(e)[:200], order)
            acc.outcome("L:build-raises")
            continue
        ok = True
        if tid != info.tid:
            ok = False
            why = diagnose_build(store, tid, info)
            viol("build:commit_tree(%s):tree-id-differs-from-git:%s" % (impl, why), "commit_tree -> %s, git mktree -> %s" % (tid.decode(), info.tid.decode()), order)
        else:
            for path in info.built.order:
                if info.built.trees[path][0] not in store:
                    ok = False
                    viol("build:commit_tree(%s):subtree-object-not-stored" % impl, "tree %r missing from the store" % (path,), order)
        if nperm > 1 and ok:
            # same ids, same (content-addressed) objects as for the first order: nothing new to read back
            acc.outcome("L:ok")
            continue
        # every tree object byte for byte git's and iterated in canonical order
        for path in info.built.order:
            oid, body, _ents = info.built.trees[path]
            try:
                obj = store[oid]
            except KeyError:
                continue
            if obj.as_raw_string() != body or obj.id != oid:
                ok = False
                viol("build:Tree(%s):stored-bytes-differ-from-git" % impl, "tree %r" % (path,), order)
            items = [(e.path, e.mode, e.sha) for e in obj.items()]
            if not gt.is_canonically_ordered(items):
                ok = False
                viol("build:Tree.items(%s):entry-order-not-canonical" % impl, "tree %r iterates %r" % (path, [n for n, _, _ in items]), order)
        # flatten
        try:
            flat = [(e.path, e.mode, e.sha) for e in OS.iter_tree_contents(store, tid)]
            if len(set(flat)) != len(flat) or set(flat) != set(L):
                ok = False
                miss = sorted(set(L) - set(flat))
                extra = sorted(set(flat) - set(L))
                pred = "duplicate-entry" if len(set(flat)) != len(flat) else ("entry-missing" if miss and not extra else "entry-spurious" if extra and not miss else "entries-differ")
                viol("flatten:iter_tree_contents(%s):%s" % (impl, pred), "flatten(commit_tree(L)) = %s" % show(flat), order)
            elif nperm == 1:
                acc.outcome("L:flatten-order-" + ("equals-ls-tree-r" if [p for p, _, _ in flat] == gt.ls_tree_r_order(L) else "differs-from-ls-tree-r"))
            if tid == info.tid:
                ft = {e.path: (e.mode, e.sha) for e in OS.iter_tree_contents(store, tid, include_trees=True) if e.path != b""}
                if ft != info.fta:
                    ok = False
                    viol("flatten:iter_tree_contents(%s,include_trees):entries-differ" % impl, "got %r" % sorted(ft), order)
        except Exception as e:  # noqa: BLE001
            ok = False
            viol("flatten:iter_tree_contents(%s):raises-%s" % (impl, exc_name(e)), repr(e)[:200], order)
        # lookup
        if tid == info.tid:
            for p in LOOKUP_PATHS:
                want = info.fta.get(p)
                got = None
                try:
                    got = OS.tree_lookup_path(store.__getitem__, tid, p)
                    res = "value"
                except Exception as e:  # noqa: BLE001
                    res = exc_name(e)
                    if not isinstance(e, (KeyError, st.OB.SubmoduleEncountered)) and res != "NotTreeError":
                        ok = False
                        viol("lookup:tree_lookup_path(%s):raises-%s" % (impl, res), "path %r: %r" % (p, e), order)
                        continue
                if want is None and got is not None:
                    ok = False
                    viol("lookup:tree_lookup_path(%s):finds-absent-path" % impl, "path %r -> %r" % (p, got), order)
                elif want is not None and got is None:
                    ok = False
                    viol("lookup:tree_lookup_path(%s):misses-present-path:%s" % (impl, res), "path %r" % p, order)
                elif want is not None and tuple(got) != want:
                    ok = False
                    viol("lookup:tree_lookup_path(%s):wrong-entry" % impl, "path %r -> %r, want %r" % (p, got, want), order)
                if nperm == 1:
                    acc.outcome("L:lookup:" + ("found-dir" if want and gt.is_dir_mode(want[0]) else "found-file" if want else "absent-" + res))
        acc.outcome("L:ok" if ok else "L:violating-order")
    acc.count("listings")
    acc.outcome("L:shape:entries=%d,trees=%d" % (len(L), len(info.built.trees)))


# --------------------------------------------------------------------------- (P) judging one diff


def _ck(c):
    return (c[0], c[1] or (), c[2] or ())


def norm_changes(changes):
    out = []
    for c in changes:
        o, n = c.old, c.new
        out.append((c.type, None if o is None else (o.path, o.mode, o.sha), None if n is None else (n.path, n.mode, n.sha)))
    return out


def expected_changes(recs, unch, cts):
    out = []
    for p, o, n in recs:
        eo = (p,) + o if o else None
        en = (p,) + n if n else None
        if o is None:
            out.append(("add", None, en))
        elif n is None:
            out.append(("delete", eo, None))
        elif (o[0] & gt.IFMT) != (n[0] & gt.IFMT) and not cts:
            out.append(("delete", eo, None))
            out.append(("add", None, en))
        else:
            out.append(("modify", eo, en))
    for p, o, _n in unch:
        out.append(("unchanged", (p,) + o, (p,) + o))
    out.sort(key=_ck)
    return out


_SHAPE = {
    "add": (False, True), "delete": (True, False), "modify": (True, True),
    "unchanged": (True, True), "rename": (True, True), "copy": (True, True),
}


def malformed(got, allow_rename):
    for t, o, n in got:
        sh = _SHAPE.get(t)
        if sh is None or (t in ("rename", "copy") and not allow_rename):
            return "unknown-change-type"
        if (o is not None) != sh[0] or (n is not None) != sh[1]:
            return "change-with-wrong-sides"
        if t in ("modify", "unchanged") and o[0] != n[0]:
            return "modify-across-paths"
        if t == "unchanged" and o != n:
            return "unchanged-with-different-sides"
    return None


def sides(got):
    """-> (old paths consumed (delete/modify/rename/unchanged), new paths produced), with duplicates."""
    olds = [o[0] for t, o, n in got if o is not None and t != "copy"]
    news = [n[0] for t, o, n in got if n is not None]
    return olds, news


def apply_got(flat_a, got):
    """Apply dulwich's change list to a flat map (tree entries are skipped).  ValueError if it
    does not fit."""
    d = dict(flat_a)
    for t, o, n in got:
        if t in ("delete", "modify", "rename") and not gt.is_dir_mode(o[1]):
            if d.get(o[0]) != (o[1], o[2]):
                raise ValueError("old side %r not in the listing" % (o,))
            del d[o[0]]
    for t, o, n in got:
        if t in ("add", "modify", "rename", "copy") and not gt.is_dir_mode(n[1]):
            if n[0] in d:
                raise ValueError("new side %r collides" % (n,))
            d[n[0]] = (n[1], n[2])
    return d


def unrename(got):
    """Take renames and copies apart again -> plain records {path: (old, new)} (+ unchanged list)."""
    old = {}
    new = {}
    unch = []
    for t, o, n in got:
        if t == "unchanged":
            unch.append((o[0], (o[1], o[2]), (o[1], o[2])))
            continue
        if o is not None and t != "copy":
            old[o[0]] = (o[1], o[2])
        if n is not None:
            new[n[0]] = (n[1], n[2])
    recs = [(p, old.get(p), new.get(p)) for p in sorted(set(old) | set(new))]
    return recs, sorted(unch)


def strip_root(got, ta, tb, it, wu):
    """With include_trees dulwich also reports the root tree itself, as the entry with path b"" (the
    convention of iter_tree_contents(include_trees=True)); git has no such line.  It is accepted -
    not demanded - when it is exactly the pair of root ids; anything else about path b"" is a problem."""
    rest = []
    problem = None
    seen = 0
    for c in got:
        t, o, n = c
        if (o is not None and o[0] == b"") or (n is not None and n[0] == b""):
            seen += 1
            ro = None if ta is None else (b"", gt.DIR, ta)
            rn = None if tb is None else (b"", gt.DIR, tb)
            want_t = "add" if ro is None else "delete" if rn is None else ("unchanged" if ro == rn else "modify")
            if not it or (o, n) != (ro, rn) or t != want_t or (t == "unchanged" and not wu) or seen > 1:
                problem = "root-entry-wrong"
            continue
        rest.append(c)
    return rest, problem


def classify(got, exp_recs, exp_unch, ia, ib, it, cts, wu, filters, allow_rename, root=False):
    """Slow path: why does `got` not satisfy the statement?  -> predicate or None.
    root=True: the root tree (path b"") counts as an ordinary tree entry on both sides."""
    bad = malformed(got, allow_rename)
    if bad:
        return "malformed:" + bad
    olds, news = sides(got)
    if len(set(olds)) != len(olds):
        return "path-twice-on-old-side"
    if len(set(news)) != len(news):
        return "path-twice-on-new-side"
    fa = (ia.fta_root if root else ia.fta) if it else ia.fa
    fb = (ib.fta_root if root else ib.fta) if it else ib.fa
    for t, o, n in got:
        if o is not None and fa.get(o[0]) != (o[1], o[2]):
            return "old-side-not-in-first-tree" + ("(tree-entry)" if gt.is_dir_mode(o[1]) else "")
        if n is not None and fb.get(n[0]) != (n[1], n[2]):
            return "new-side-not-in-second-tree" + ("(tree-entry)" if gt.is_dir_mode(n[1]) else "")
    if filters is not None:
        for t, o, n in got:
            for side in (o, n):
                if side is not None and not gt.matches(side[0], filters, gt.is_dir_mode(side[1])):
                    above = any(f.startswith(side[0] + b"/") for f in filters) and (side[0] in ia.dirs or side[0] in ib.dirs)
                    return "outside-path-filter:" + ("file-where-other-tree-has-directory-above-filter" if above else "unrelated-path")
    for t, o, n in got:
        if t == "rename" and o[0] in fb and o[0] not in news:
            # a rename removes its source: the path must be gone from B (or be written again by another change)
            return "rename-source-still-in-second-tree"
    for t, o, n in got:
        if t in ("rename", "copy"):
            if (o[1] & gt.IFMT) != (n[1] & gt.IFMT):
                return "%s-across-file-types" % t
            if not gt.is_dir_mode(o[1]) and o[2] != n[2] and {o[2], n[2]} != {X, Z}:
                return "%s-between-unrelated-contents" % t
    # the statement's patch oracle
    target = dict(ib.fa)
    if filters is not None:
        target = {p: v for p, v in ia.fa.items() if not gt.matches(p, filters)}
        target.update({p: v for p, v in ib.fa.items() if gt.matches(p, filters)})
    try:
        res = apply_got(ia.fa, got)
    except ValueError:
        res = None
    recs, unch = unrename(got)
    if res != target:
        exp_files = {p: (o, n) for p, o, n in gt.raw_diff(ia.fa, ib.fa, False, filters)}
        got_files = {}
        for p, o, n in recs:
            o = None if o is not None and gt.is_dir_mode(o[0]) else o
            n = None if n is not None and gt.is_dir_mode(n[0]) else n
            if o is not None or n is not None:
                got_files[p] = (o, n)
        for p in sorted(exp_files):
            if p not in got_files:
                return "patched-A-differs-from-B:missed-change"
        for p in sorted(got_files):
            if p not in exp_files:
                return "patched-A-differs-from-B:spurious-change"
        return "patched-A-differs-from-B:wrong-entry"
    if wu:
        if unch != sorted(exp_unch):
            miss = [u for u in exp_unch if u not in unch]
            return "unchanged-entries-" + ("missing" if miss else "spurious") + ("(tree-entry)" if any(gt.is_dir_mode(u[1][0]) for u in (miss or [u for u in unch if u not in exp_unch])) else "")
    elif unch:
        return "unchanged-reported-without-want_unchanged"
    if recs != exp_recs:
        e = {p: (o, n) for p, o, n in exp_recs}
        g = {p: (o, n) for p, o, n in recs}
        for p in sorted(set(e) | set(g)):
            if e.get(p) != g.get(p):
                tree = any(x and gt.is_dir_mode(x[0]) for x in (e.get(p) or ()) + (g.get(p) or ()))
                what = "missing" if p not in g else "spurious" if p not in e else "wrong"
                return "differs-from-git-raw-diff:%s-%s" % (what, "tree-entry" if tree else "no-op-change" if what == "spurious" else "entry")
    if not allow_rename:
        types = {}
        for t, o, n in got:
            if t != "unchanged":
                types.setdefault((o or n)[0], []).append(t)
        for p, o, n in exp_recs:
            s = gt.status(o, n)
            want = {"A": ["add"], "D": ["delete"], "M": ["modify"]}.get(s) or (["modify"] if cts else ["add", "delete"])
            if sorted(types.get(p, [])) != want:
                return "change-type-differs-from-git:git-%s-reported-as-%s" % (s, "+".join(sorted(types.get(p, []))) or "nothing")
    return None


def flagstr(impl, wu=False, it=False, cts=False, filt=False, none_id=False, rd=None):
    """The part of a key between the parentheses: implementation + the non-default arguments (kept short: the
    runner cuts replay file names at 80 characters)."""
    parts = [impl]
    if rd is not None and rd != "default":
        parts.append(rd)
    if it:
        parts.append("trees")
    if cts:
        parts.append("type_same")
    if wu:
        parts.append("unchanged")
    if filt:
        parts.append("paths")
    if none_id:
        parts.append("id-None")
    return ",".join(parts)


def rename_vs_git(got, lines):
    """Informational: how does dulwich's pairing compare with git -C on this pair?"""
    d = sorted((t[0].upper(), o[0], n[0]) for t, o, n in got if t in ("rename", "copy"))
    g = sorted((letter, p, p2) for letter, _s, _om, _nm, _oi, _ni, p, p2 in lines if letter in ("R", "C"))
    if not d and not g:
        return "neither-finds-any"
    if d == g:
        return "identical-pairs"
    if sorted(x[2] for x in d) == sorted(x[2] for x in g):
        if sorted(x[1:] for x in d) == sorted(x[1:] for x in g):
            return "same-pairs-R/C-labels-differ"
        return "same-targets-different-sources"
    if not g:
        return "only-dulwich-finds"
    if not d:
        return "only-git-finds"
    return "different-targets"


# --------------------------------------------------------------------------- (P) one pair


def patch_feature(ia, ib):
    fa, fb = ia.fa, ib.fa
    da = set(ia.dirs) - {b""}
    db = set(ib.dirs) - {b""}
    if any(p in da for p in fb):
        return "directory-replaced-by-file"
    if any(p in db for p in fa):
        return "file-replaced-by-directory"
    if da - db:
        return "directory-emptied"
    if db - da:
        return "directory-created"
    return "plain"


def eval_pair(acc, st, cfg, ia, ib, gitres, k):
    """All configurations of one ordered pair.  gitres: {gitkey: [lines per pair]}, k: index."""
    impl = st.impl
    DT, OS = st.DT, st.OS
    store = st.store
    A, B = ia.L, ib.L
    reported = {}

    def viol(area, site, flags, pred, msg):
        cls = (area, site, pred)
        if cls in reported:
            return
        if site == "RenameDetector" and ("diff", "tree_changes", pred) in reported:
            # RenameDetector starts from tree_changes: the same predicate on the same pair is a consequence
            acc.count("rename_violations_explained_by_the_plain_diff")
            return
        reported[cls] = flags
        acc.violation("%s:%s(%s):%s" % (area, site, flags, pred), "A=%s B=%s: %s" % (show(A), show(B), msg), rp(case_pair, impl, _S["cfgname"], A, B))

    recs_cache = {}

    def ref(it, filters):
        key = (it, filters)
        r = recs_cache.get(key)
        if r is None:
            fa = ia.fta if it else ia.fa
            fb = ib.fta if it else ib.fa
            recs = gt.raw_diff(fa, fb, it, filters)
            unch = gt.unchanged(fa, fb, it, filters)
            gk = gitkey_plain(it, filters)
            if gk in gitres:
                grec, gst = gt.records_from_git(gitres[gk][k])
                mine = {p: (o, n) for p, o, n in recs}
                if grec != mine:
                    raise HarnessError("ORACLE-DISAGREEMENT: reference raw diff != git diff-tree for A=%s B=%s it=%s filters=%r:\n ref %r\n git %r" % (show(A), show(B), it, filters, mine, grec))
                for p, (o, n) in mine.items():
                    if gt.status(o, n) != gst[p]:
                        raise HarnessError("ORACLE-DISAGREEMENT: status of %r: ref %s git %s (A=%s B=%s)" % (p, gt.status(o, n), gst[p], show(A), show(B)))
                acc.count("git_pair_diffs_compared")
            r = recs_cache[key] = (recs, unch)
        return r

    # reference self-check: the reference diff patches A into B
    recs0, _ = ref(False, None)
    if gt.apply_records(ia.fa, recs0) != ib.fa:
        raise HarnessError("reference model: apply(diff(A,B), A) != B for A=%s B=%s" % (show(A), show(B)))

    def run_plain(wu, it, cts, filters, ta, tb, none_id=False):
        flags = flagstr(impl, wu, it, cts, filters is not None, none_id)
        site = "tree_changes"
        acc.count("diff_evaluations")
        kw = {}
        if wu:
            kw["want_unchanged"] = True
        if it:
            kw["include_trees"] = True
        if cts:
            kw["change_type_same"] = True
        if filters is not None:
            kw["paths"] = list(filters)
        try:
            got = norm_changes(DT.tree_changes(store, ta, tb, **kw))
        except Exception as e:  # noqa: BLE001
            viol("diff", site, flags, "raises-" + exc_name(e), repr(e)[:200])
            acc.outcome("P:plain:raises")
            return None
        recs, unch = ref(it, filters)
        exp = expected_changes(recs, unch if wu else (), cts)
        got, rootp = strip_root(got, ta, tb, it, wu)
        try:
            same = sorted(got, key=_ck) == exp
        except TypeError:
            same = False
        if same and not rootp:
            return got
        pred = rootp or classify(got, recs, unch, ia, ib, it, cts, wu, filters, False) or "differs-from-git-raw-diff:other"
        viol("diff", site, flags, pred, "tree_changes(%s) = %r, want %r" % (", ".join("%s=%r" % kv for kv in sorted(kw.items())), got, exp))
        return None

    # ---- plain cube
    base_got = None
    for wu, it, cts in cfg["plain"]:
        default = not (wu or it or cts)
        if default:
            store.trace = []
        got = run_plain(wu, it, cts, None, ia.tid, ib.tid)
        if default:
            trace, store.trace = store.trace, None
            base_got = got
            shared = {i for p, i in ia.dirs.items() if ib.dirs.get(p) == i and (p or ia.tid == ib.tid)}
            if shared:
                acc.outcome("P:identical-subtree-" + ("walked" if shared & set(trace) else "pruned"))
    # ---- None for an empty side
    if cfg["none_id"] and (not A or not B):
        for wu, it, cts in cfg["plain"]:
            run_plain(wu, it, cts, None, ia.tid if A else None, ib.tid if B else None, none_id=True)
    # ---- path filters
    for filters, it in cfg["filt"]:
        run_plain(False, it, False, filters, ia.tid, ib.tid)
    # ---- statuses observed (vacuity census, default config)
    sts = sorted({gt.status(o, n) for p, o, n in recs0})
    acc.outcome("P:statuses:" + ("".join(sts) if sts else "identical"))

    # ---- census of the two situations the twins / dupsrc families exist for (vacuity guard, any family)
    both = {}
    for p, i in ia.dirs.items():
        if p and p in ib.dirs:
            both[(i, ib.dirs[p])] = both.get((i, ib.dirs[p]), 0) + 1
    if any(c > 1 and k[0] != k[1] for k, c in both.items()):
        acc.outcome("P:twin-directories:same-old-and-same-new-subtree-at-several-paths")
    if any(c > 1 and k[0] == k[1] for k, c in both.items()):
        acc.outcome("P:twin-directories:same-unchanged-subtree-at-several-paths")
    by_id = {}
    for p, (m, i) in ia.fa.items():
        by_id.setdefault(i, []).append(p)
    for i, srcs in by_id.items():
        if len(srcs) > 1 and sum(1 for p, (m2, i2) in ib.fa.items() if i2 == i and p not in ia.fa) > 1:
            kinds = sorted({"deleted" if p not in ib.fa else "kept" if ib.fa[p] == ia.fa[p] else "modified" for p in srcs})
            acc.outcome("P:duplicate-sources-with-2+-new-copies:" + "+".join(kinds))

    # ---- rename detection
    for variant, it, wu in cfg["rd"]:
        flags = flagstr(impl, wu, it, rd=variant)
        acc.count("diff_evaluations")
        try:
            rd = DT.RenameDetector(store, **RD_VARIANTS[variant])
            kw = {"rename_detector": rd}
            if wu:
                kw["want_unchanged"] = True
            if it:
                kw["include_trees"] = True
            got = norm_changes(DT.tree_changes(store, ia.tid, ib.tid, **kw))
        except Exception as e:  # noqa: BLE001
            viol("diff", "RenameDetector", flags, "raises-" + exc_name(e), repr(e)[:200])
            acc.outcome("P:rd:raises")
            continue
        recs, unch = ref(it, None)
        root = it and any((o is not None and o[0] == b"") or (n is not None and n[0] == b"") for _t, o, n in got)
        if root:  # the root tree reported like any other tree entry (accepted, not demanded)
            if ia.tid != ib.tid:
                recs = [(b"", (gt.DIR, ia.tid), (gt.DIR, ib.tid))] + recs
            else:
                unch = [(b"", (gt.DIR, ia.tid), (gt.DIR, ia.tid))] + unch
        pred = classify(got, recs, unch, ia, ib, it, False, wu, None, True, root=root)
        if any(t == "copy" and o[0] == n[0] for t, o, n in got):
            acc.outcome("P:rd:%s:copy-onto-its-own-path" % variant)
        if any(t in ("rename", "copy") and o[2] != n[2] for t, o, n in got):
            acc.outcome("P:rd:%s:inexact-rename-or-copy-found" % variant)
        if pred:
            viol("diff", "RenameDetector", flags, pred, "changes_with_renames = %r; plain diff %r" % (got, recs))
        gk = gitkey_rd(variant, it)
        if gk in gitres and not wu:
            acc.outcome("P:rd:%s:vs-git:%s" % (variant, rename_vs_git(got, gitres[gk][k])))
        kinds = sorted({t for t, _o, _n in got if t in ("rename", "copy")})
        if not wu and not it:
            acc.outcome("P:rd:%s:finds:%s" % (variant, "+".join(kinds) or "nothing"))

    # ---- rename detection combined with a path filter
    for filters in cfg["rdfilt"]:
        flags = flagstr(impl, filt=True, rd="default")
        acc.count("diff_evaluations")
        try:
            rd = DT.RenameDetector(store)
            got = norm_changes(DT.tree_changes(store, ia.tid, ib.tid, rename_detector=rd, paths=list(filters)))
        except Exception as e:  # noqa: BLE001
            viol("diff", "RenameDetector", flags, "raises-" + exc_name(e), repr(e)[:200])
            continue
        recs, unch = ref(False, filters)
        pred = classify(got, recs, unch, ia, ib, False, False, False, filters, True)
        if pred:
            viol("diff", "RenameDetector", flags, pred, "tree_changes(rename_detector, paths=%r) = %r; filtered plain diff %r" % (list(filters), got, recs))

    # ---- patching: commit_tree_changes(A, changes) == tree of B
    changes = [(p, None, None) if n is None else (p, n[0], n[1]) for p, o, n in recs0]
    orders = []
    if cfg["patch"] == "all" and len(changes) <= 3:
        orders = [list(x) for x in itertools.permutations(changes)]
    else:
        dels = [c for c in changes if c[2] is None]
        adds = [c for c in changes if c[2] is not None]
        for o in (changes, changes[::-1], dels + adds, adds + dels):
            if o not in orders:
                orders.append(o)
    if base_got is not None:
        own = []
        for t, o, n in base_got:  # dulwich's own change list in the order it was produced
            own.append((n[0], n[1], n[2]) if n is not None else (o[0], None, None))
        if own not in orders and sorted(own, key=lambda c: (c[0], c[1] or 0, c[2] or b"")) == sorted(changes, key=lambda c: (c[0], c[1] or 0, c[2] or b"")):
            orders.append(own)
    results = []
    for order in orders:
        acc.count("patch_evaluations")
        try:
            t = OS.commit_tree_changes(store, ia.tid, list(order))
            results.append("ok" if t == ib.tid else "wrong")
            if t != ib.tid:
                detail = "-> %s, want %s" % (t.decode(), ib.tid.decode())
                try:
                    fl = [(e.path, e.mode, e.sha) for e in OS.iter_tree_contents(store, t)]
                    detail += " (flattens to %s)" % show(fl)
                    results[-1] = "wrong" if sorted(fl) != sorted(B) else "wrong-id-same-listing"
                except Exception as e:  # noqa: BLE001
                    detail += " (unflattenable: %r)" % e
                bad_order = order
        except Exception as e:  # noqa: BLE001
            results.append("raises-" + exc_name(e))
            detail = repr(e)[:120]
            bad_order = order
    bad = sorted({r for r in results if r != "ok"})
    feat = patch_feature(ia, ib)
    if bad:
        pred = {"wrong": "result-differs-from-rebuilt-tree", "wrong-id-same-listing": "different-tree-object-for-the-same-listing"}.get(bad[0], bad[0])
        if "ok" in results:
            pred += ":order-dependent"
        viol("patch", "commit_tree_changes", impl, pred + "@" + feat, "changes %r %s" % ([(p.decode(), m and "%o" % m) for p, m, _s in bad_order], detail))
    acc.outcome("P:patch:%s:%s" % (feat, "ok" if not bad else "violating"))
    acc.count("pairs")


def case_pair(acc: Acc, impl, cfgname, A, B):
    """One ordered pair under every configuration of a config set (stand-alone: own git processes)."""
    st = ensure_impl(impl)
    cfg = CFGSETS[cfgname]
    _S["cfgname"] = cfgname
    ia = Info(tuple(tuple(e) for e in A))
    ib = Info(tuple(tuple(e) for e in B))
    git_write_trees(st, [ia.built, ib.built])
    put_reference_trees(st, ia, acc)
    put_reference_trees(st, ib, acc)
    gitres = {}
    for gk in needed_gitkeys(cfg):
        flags, filters = git_flags(gk)
        gitres[gk] = git_diff(st, [(ia.tid, ib.tid)], flags, filters)
    eval_pair(acc, st, cfg, ia, ib, gitres, 0)


# --------------------------------------------------------------------------- task plumbing


def family_infos(st, fam, acc=None):
    """-> (row infos, column infos); the same list twice for a square family."""
    name = fam[0]
    if name not in st.fams:
        rows, cols = family_lists(fam)
        cinfos = [Info(L) for L in cols]
        rinfos = cinfos if rows is cols else [Info(L) for L in rows]
        for infos in ([cinfos] if rinfos is cinfos else [rinfos, cinfos]):
            git_write_trees(st, [i.built for i in infos])
            for i in infos:
                put_reference_trees(st, i, acc)
        st.fams[name] = (rinfos, cinfos)
    return st.fams[name]


def work(task):
    impl, kind, params, items = task
    acc = Acc()
    st = ensure_impl(impl)
    if kind == "listings":
        infos = [Info(L) for L in items]
        git_write_trees(st, [i.built for i in infos])
        # every non-empty tree of every listing has had its id confirmed by git mktree (once per worker and distinct tree)
        acc.count("tree_ids_confirmed_by_git_mktree", sum(1 for i in infos for t in i.built.trees.values() if t[2]))
        for info in infos:
            _listing_checks(acc, st, info)
        if infos:
            acc.sample({"impl": impl, "family": "listings", "first_of_task": show(infos[0].L), "task_size": len(infos)}, cap=1)
    elif kind == "pairs":
        fam = params
        cfg = CFGSETS[fam[3]]
        _S["cfgname"] = fam[3]
        rinfos, infos = family_infos(st, fam, acc)
        rows = items
        pairs = [(rinfos[a].tid, b.tid) for a in rows for b in infos]
        gitres = {}
        for gk in needed_gitkeys(cfg):
            flags, filters = git_flags(gk)
            gitres[gk] = git_diff(st, pairs, flags, filters)
            acc.count("git_batch_processes")
        k = 0
        for a in rows:
            ia = rinfos[a]
            for ib in infos:
                eval_pair(acc, st, cfg, ia, ib, gitres, k)
                k += 1
        acc.count("pairs:" + fam[0], k)
        acc.sample({"impl": impl, "family": fam[0], "first_row": show(rinfos[rows[0]].L), "rows": len(rows), "columns": len(infos)}, cap=1)
    else:
        raise AssertionError(kind)
    acc.note("bound:" + impl, bound_note(st))
    return acc


def bound_note(st):
    if st.impl == "rust":
        return {"_objects": sys.modules["dulwich._objects"].__file__, "_diff_tree": sys.modules["dulwich._diff_tree"].__file__}
    return "extension imports blocked; _merge_entries/_is_tree/_count_blocks/sorted_tree_items/parse_tree are the *_py functions"


def run(ctx):
    q = ctx.quick
    paths = common.rust_paths()  # build once in the parent; workers inherit the cached paths
    if any(m.startswith("dulwich.") for m in sys.modules):
        raise HarnessError("dulwich submodules imported in the parent before the passes were bound")
    nmax = listing_bound(q)
    Ls = listings(nmax, ALL8) + sibling_dir_listings(3 if q else 4)
    fams = families(q)
    sizes = {f[0]: tuple(len(x) for x in family_lists(f)) for f in fams}  # (rows, columns)
    total_pairs = sum(r * c for r, c in sizes.values())
    for impl in IMPLS:
        tasks = []
        lst = ctx.order(Ls)
        for part in split(lst, max(ctx.jobs * 4, 8)):
            tasks.append((impl, "listings", None, part))
        for fam in fams:
            name, n, kinds, cfgname = fam
            N, NC = sizes[name]
            per_pair = len(CFGSETS[cfgname]["plain"]) + len(CFGSETS[cfgname]["filt"]) + 2 * len(CFGSETS[cfgname]["rd"]) + len(CFGSETS[cfgname]["rdfilt"]) + 4
            rows_per_task = max(1, min(N, int(25000 / (NC * per_pair)) or 1))
            rows = ctx.order(range(N))
            for i in range(0, N, rows_per_task):
                tasks.append((impl, "pairs", fam, rows[i : i + rows_per_task]))
        tasks = ctx.order(tasks)
        tasks.sort(key=lambda t: 0 if t[1] == "listings" else 1)  # simplest first (order only)
        # with --jobs 1 pmap runs in this process: ensure_impl then re-binds dulwich between the passes
        pmap_acc(work, tasks, ctx.acc, jobs=ctx.jobs)
    for _, cases in ctx.acc.viol.values():  # shortest recorded example first (presentation only)
        cases.sort(key=lambda c: (len(c["summary"]), c["summary"]))

    n = ctx.acc.n
    classes = ctx.acc.classes
    ctx.level = "exploration"
    evals = n.get("listing_orders", 0) + n.get("diff_evaluations", 0) + n.get("patch_evaluations", 0)
    ctx.coverage.update(
        evaluations=evals,
        distinct_nontrivial=len([c for c in classes if not c.endswith(":ok") and ":shape:" not in c]),
        rule=(
            "E4 bounded-exhaustive, two passes (Rust extensions rebuilt from the working tree / pure-Python fallbacks in "
            "separate worker processes), identical spaces.  (L) all %d consistent listings of <=%d entries over paths %r x "
            "kinds {100644,100755,120000} x {X,Y} + 160000 x {G1,G2}, each in every input order (%d builds per pass): tree id "
            "and every stored tree byte-identical to the reference model / git mktree --batch, canonical entry order by an "
            "independent comparator, iter_tree_contents == listing, tree_lookup_path on all %d pool paths.  (P) the full "
            "product rows x columns (a square except dupsrc*) of each family %s; twins = every assignment of a subtree "
            "{absent, {f:X}, {f:Y}[, {f:X,g:X}]} to the directories a, a-, c/x, c/y (directories with equal subtrees on both "
            "sides); dupsrc = 2..3 files with blob X in A x (each source absent/kept/modified/chmod, every subset of 3 new "
            "paths with X) in B, and backwards ((rows, columns) per family %r; %d ordered pairs per pass): tree_changes under the listed flag "
            "sets (cube want_unchanged x include_trees x change_type_same, tree id None, path filters: %d singles + %d pairs, "
            "RenameDetector default/find_copies_harder/rewrite_threshold) judged by: patch(diff, flatten(A)) == flatten(B), "
            "each path once per side, sides exist, == reference raw diff == git diff-tree -r [-t] --raw -z --no-renames "
            "--stdin [-- paths] incl. status letters, un-renamed rename output == plain diff; commit_tree_changes(A, "
            "changes) == tree(B) for all orders of <=3 changes (else 4 orders).  evaluations = builds + tree_changes calls + "
            "commit_tree_changes calls."
            % (len(Ls), nmax, [p.decode() for p in PATHS], sum(_fact(len(L)) for L in Ls), len(LOOKUP_PATHS),
               [(f[0], ("<=%d entries" % f[1]) if isinstance(f[1], int) else "generator " + f[1], list(f[2] or ()), f[3]) for f in fams],
               sizes, total_pairs, len(F1), len(F2))
        ),
        exhaustive=True,
        bounds={
            "listing_max_entries": nmax, "listings": len(Ls), "paths": len(PATHS), "kinds": len(ALL8),
            "families": {f[0]: {"max_entries_or_generator": f[1], "kinds": list(f[2] or ()), "configs": f[3], "rows": sizes[f[0]][0],
                                "columns": sizes[f[0]][1], "pairs": sizes[f[0]][0] * sizes[f[0]][1]} for f in fams},
            "pairs_per_pass": total_pairs, "passes": list(IMPLS),
            "config_sets": {k: {"plain": len(v["plain"]), "filters": len(v["filt"]), "rename": len(v["rd"]), "rename_x_filters": len(v["rdfilt"]), "patch_orders": v["patch"]} for k, v in CFGSETS.items()},
        },
    )
    ctx.coverage["outcome_classes"] = dict(sorted(classes.items()))  # all of them (the default keeps the first 60)
    ctx.coverage["rust_build"] = {k: v for k, v in paths.items()}
    ctx.coverage["pure_python_pass"] = (
        "separate forked worker processes; extension imports blocked before dulwich.objects / diff_tree were imported"
        if ctx.jobs > 1 else "same process (--jobs 1): dulwich modules purged and re-imported with the extension imports blocked")
    ctx.assumptions += [
        "C git 2.39.5 is the second oracle; engines/refmodels/gittree.py must agree with it on every listing (mktree ids) "
        "and on every pair and flag set that has a git equivalent (diff-tree), else HARNESS-ERROR",
        "trees handed to tree_changes / commit_tree_changes are git's exact objects (reference bytes) in a MemoryObjectStore, "
        "so the diff and patch oracles do not depend on commit_tree; commit_tree itself is judged in (L)",
        "the ORDER in which tree_changes / iter_tree_contents yield is not judged (the statement is about sets); whether identical "
        "subtrees are pruned and how rename pairing compares with git -C are recorded as informational outcome classes only",
        "rename detection is a heuristic: judged only by what the statement fixes (patching works, paths unique per side, "
        "mentioned entries exist, taking renames/copies apart gives git's raw diff, a path filter is honoured) plus two facts "
        "that hold for every git raw diff whatever the heuristics: no rename/copy between different file types, none between "
        "blobs that share nothing",
        "with include_trees dulwich also reports the root tree as an entry with path b'' (its documented convention); that "
        "entry is accepted but not demanded, git has no such line",
        "gitlink ids are commit ids that exist in no store (as in a real superproject); blobs X and Y share no line, Z shares 9 of 10 lines with X",
    ]


def _fact(n):
    r = 1
    for i in range(2, n + 1):
        r *= i
    return r


def replay(ctx, obj):
    common.rust_paths()
    return replay_generic(sys.modules[__name__], ctx, obj)
