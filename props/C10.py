"""C10 — maintenance never loses reachable objects; readers survive concurrent repacks.

(A) E3: repository layouts = BFS closure (bounded depth) of builder operations over a small object
    universe (loose / packs / duplicates / alternates / refs / detached HEAD / tags); from every
    layout every sequence of <=1-2 (quick) / <=2-3 (thorough) maintenance operations under two clock
    settings; after every step every object in the pre-state closure of all refs and HEAD must be
    readable with identical bytes on the live store and on a freshly opened one; an unreachable object
    may disappear only if it is older than the grace period in force.
(B) E1: a reader (lookups, membership, iteration; warm or cold pack cache) interleaved at system-call
    granularity with a repacker (pack_loose_objects / repack / gc); the reader must never get a
    spurious KeyError / False / short iteration for an object that exists throughout.
"""

from __future__ import annotations

import hashlib
import itertools
import os
import shutil
import time as _time

from engines import statespace, sysched
from engines.common import Acc, HarnessError, fresh_dir, git, pmap, pmap_acc, rmtree, rp, split

M = b"refs/heads/m"
TAGREF = b"refs/tags/t"
DAY = 86400

_U = {}


def universe():
    if _U:
        return _U
    from dulwich.objects import Blob, Commit, Tag, Tree

    def commit(tree, parents, msg, t):
        c = Commit()
        c.tree = tree.id
        c.parents = parents
        c.author = c.committer = b"A <a@example.com>"
        c.author_time = c.commit_time = t
        c.author_timezone = c.commit_timezone = 0
        c.message = msg
        return c

    b1 = Blob.from_string(b"blob one\n" * 8)
    b2 = Blob.from_string(b"blob one\n" * 8 + b"and a second line\n")
    t1 = Tree()
    t1.add(b"f", 0o100644, b1.id)
    # entry kinds a reachability walk must follow (symlink target blob, executable blob, blob below a subtree - each
    # referenced by nothing else) and one it must not (a gitlink to a commit that lives in another repository)
    b3 = Blob.from_string(b"f")
    b4 = Blob.from_string(b"#!/bin/sh\n")
    b5 = Blob.from_string(b"below a subtree\n")
    sub = Tree()
    sub.add(b"h", 0o100644, b5.id)
    t2 = Tree()
    t2.add(b"f", 0o100644, b2.id)
    t2.add(b"g", 0o100644, b1.id)
    t2.add(b"l", 0o120000, b3.id)
    t2.add(b"x", 0o100755, b4.id)
    t2.add(b"d", 0o040000, sub.id)
    t2.add(b"m", 0o160000, b"1" * 40)
    c1 = commit(t1, [], b"c1\n", 1000)
    c2 = commit(t2, [c1.id], b"c2\n", 2000)
    tag = Tag()
    tag.name = b"t"
    tag.object = (Commit, c1.id)
    tag.tagger = b"A <a@example.com>"
    tag.tag_time = 1500
    tag.tag_timezone = 0
    tag.message = b"tag\n"
    tag2 = Tag()  # a tag of a tag: refs/tags/t -> tag2 -> tag -> c1
    tag2.name = b"t2"
    tag2.object = (Tag, tag.id)
    tag2.tagger = b"A <a@example.com>"
    tag2.tag_time = 1600
    tag2.tag_timezone = 0
    tag2.message = b"tag of a tag\n"
    junk = Blob.from_string(b"unreachable junk\n")
    _U.update(b1=b1, b2=b2, b3=b3, b4=b4, b5=b5, sub=sub, t1=t1, t2=t2, c1=c1, c2=c2, tag=tag, tag2=tag2, junk=junk)
    _U["groups"] = {"G1": [b1, t1, c1], "G2": [b2, b3, b4, b5, sub, t2, c2], "G3": [tag, tag2], "G4": [junk]}
    _U["byid"] = {o.id: (k, o) for k, o in _U.items() if k not in ("groups", "byid")}
    return _U


def short(oid):
    u = universe()
    return u["byid"][oid][0] if oid in u["byid"] else oid[:8].decode()


def closure_of(store, tips):
    from dulwich.objects import Commit, Tag, Tree

    seen = set()
    todo = [t for t in tips if t]
    while todo:
        oid = todo.pop()
        if oid in seen:
            continue
        seen.add(oid)
        o = store[oid]
        if isinstance(o, Commit):
            todo.append(o.tree)
            todo.extend(o.parents)
        elif isinstance(o, Tree):
            for e in o.items():
                if e.mode != 0o160000:
                    todo.append(e.sha)
        elif isinstance(o, Tag):
            todo.append(o.object[1])
    return seen


def raw_hash(o):
    raw = o.as_raw_string()
    return hashlib.sha1(o.type_name + b" " + str(len(raw)).encode() + b"\0" + raw).hexdigest().encode()


# =========================================================================== (B) reader vs repacker


class ReaderVsRepacker(sysched.Scenario):
    nactors = 2

    def __init__(self, layout, reader_op, repack_op, warm):
        self.layout = layout
        self.reader_op = reader_op
        self.repack_op = repack_op
        self.warm = warm
        self.name = "reader[%s,%s] || %s on %s" % (reader_op, warm if isinstance(warm, str) else "warm" if warm else "cold", repack_op, layout)

    def setup(self, root):
        from dulwich.repo import Repo

        u = universe()
        r = Repo.init_bare(root)
        g = u["groups"]
        if self.layout == "loose":
            for o in g["G1"] + g["G2"] + g["G3"] + g["G4"]:
                r.object_store.add_object(o)
        elif self.layout == "pack+loose":
            r.object_store.add_objects([(o, None) for o in g["G1"]])
            for o in g["G2"] + g["G3"] + g["G4"]:
                r.object_store.add_object(o)
        elif self.layout in ("two-packs", "two-packs+midx"):
            r.object_store.add_objects([(o, None) for o in g["G1"]])
            r.object_store.add_objects([(o, None) for o in g["G2"] + g["G3"]])
            r.object_store.add_object(g["G4"][0])
            if self.layout.endswith("+midx"):
                r.object_store.write_midx()
        r.refs[M] = u["c2"].id
        r.refs[TAGREF] = u["tag"].id
        r.refs.set_symbolic_ref(b"HEAD", M)
        cfg = r.get_config()
        cfg.set((b"gc",), b"auto", b"0")
        cfg.write_to_path()
        r.close()

    def actor(self, i, root, rec):
        from dulwich.repo import Repo

        u = universe()
        wanted = [u[k].id for k in ("c2", "t2", "b2", "c1", "t1", "b1", "tag")]
        r = Repo(root)
        try:
            st = r.object_store
            if i == 0:
                if self.warm == "listed":
                    # knows which packs exist and has loaded the multi-pack-index, but has not opened any pack yet
                    list(st.packs)
                    st.get_midx()
                elif self.warm:
                    list(st.packs)
                    u["c1"].id in st
                if self.reader_op == "iter":
                    try:
                        ids = set(st)
                        for oid in wanted:
                            rec("read", (oid, oid if oid in ids else b"missing-from-iteration"))
                    except Exception as e:
                        rec("read", (wanted[0], ("%s: %s" % (type(e).__name__, str(e)[:60])).encode()))
                else:
                    for oid in wanted:
                        try:
                            if self.reader_op == "getitem":
                                o = st[oid]
                                rec("read", (oid, raw_hash(o)))
                            elif self.reader_op == "get_raw":
                                t, raw = st.get_raw(oid)
                                rec("read", (oid, hashlib.sha1(b"%s %d\0" % ({1: b"commit", 2: b"tree", 3: b"blob", 4: b"tag"}[t], len(raw)) + raw).hexdigest().encode()))
                            elif self.reader_op == "contains":
                                rec("read", (oid, oid if oid in st else b"False"))
                            elif self.reader_op == "contains_either":
                                rec("read", (oid, oid if (st.contains_packed(oid) or st.contains_loose(oid)) else b"False(packed-then-loose)"))
                        except KeyError:
                            rec("read", (oid, b"KeyError"))
                        except Exception as e:
                            rec("read", (oid, ("%s: %s" % (type(e).__name__, str(e)[:60])).encode()))
            else:
                try:
                    if self.repack_op == "pack_loose_objects":
                        st.pack_loose_objects()
                    elif self.repack_op == "repack":
                        st.repack()
                    elif self.repack_op == "gc":
                        from dulwich.gc import garbage_collect

                        garbage_collect(r, grace_period=0)
                    rec("maint", "ok")
                except Exception as e:
                    rec("maint", "%s: %s" % (type(e).__name__, str(e)[:80]))
        finally:
            r.close()

    def check(self, ex, root):
        out = []
        bad = []
        for a, k, p, _ in ex.history:
            if k == "read":
                oid, got = p
                if got != oid:
                    bad.append((oid, got))
            if k == "maint" and p != "ok":
                out.append(("maintenance:%s:raises-under-concurrent-reader" % self.repack_op, "%s: %s" % (self.name, p)))
        ex.extra["outcome"] = "reader:%s" % ("ok" if not bad else ",".join("%s=%s" % (short(o), g.decode()[:24]) for o, g in bad))
        if bad:
            oid, got = bad[0]
            out.append(("reader:%s:spurious-%s-during-%s" % (self.reader_op, got.decode().split(":")[0].split("(")[0], self.repack_op),
                        "%s: object %s exists before, during and after, but the reader got %s" % (self.name, short(oid), got.decode())))
        return out


def work_race(task):
    acc = Acc()
    layout, reader_op, repack_op, warm, bound = task
    sc = ReaderVsRepacker(layout, reader_op, repack_op, warm)
    st = sysched.explore_scenario(sc, bound, conflict_filter=True)
    acc.count("race_scenarios")
    acc.count("race_executions", st["executions"])
    acc.count("race_points", st["points_total"])
    for oc, n in st["outcomes"].items():
        acc.outcome("race:" + oc, n)
    if st["uninterposed"]:
        raise HarnessError("uninterposed access: %r" % st["uninterposed"])
    acc.sample({"scenario": st["scenario"], "executions": st["executions"], "per_preemptions": st["per_preemptions"]}, cap=3)
    for v in st["violations"]:
        acc.violation(v["key"], "%s [schedule %s; %d schedule(s)]" % (v["summary"], v["choices"], v["count"]),
                      rp("case_race_replay", layout, reader_op, repack_op, warm, v["choices"]))
    return acc


def case_race_replay(acc, layout, reader_op, repack_op, warm, choices):
    sc = ReaderVsRepacker(layout, reader_op, repack_op, warm)
    exp = sysched.Explorer(sc, 99)
    try:
        ex, viol = exp.replay(choices)
        for key, summary in viol:
            acc.violation(key, summary)
    finally:
        exp.close()


# =========================================================================== (A) sequential maintenance


def _open(root):
    from dulwich.repo import Repo

    return Repo(os.path.join(root, "repo"))


def _present(r, objs):
    return all(o.id in r.object_store for o in objs)


BUILD_OPS = [
    ("loose", "G1"), ("loose", "G2"), ("loose", "G3"), ("loose", "G4"),
    ("pack", "G1"), ("pack", "G2"), ("pack", "G1+G2"), ("pack", "G3+G4"), ("pack", "G2+G4"),
    ("alt", "G1"),
    ("ref", "m", "c1"), ("ref", "m", "c2"), ("ref", "m", None), ("ref", "t", "tag"), ("ref", "t", "tag2"), ("ref", "t", None),
    ("head", "c1"), ("head", "c2"), ("head", "m"),
    ("age",),
]
AGED = 20 * DAY  # "age": every object file (loose, pack, alternate) present so far becomes 20 days old


def _object_files(root):
    out = []
    for base in (os.path.join(root, "repo", "objects"), os.path.join(root, "alt-objects")):
        for d, _dirs, files in os.walk(base):
            if os.path.basename(d) == "info":
                continue
            out.extend(os.path.join(d, f) for f in files)
    return out


def _is_old(path):
    return _time.time() - os.path.getmtime(path) > AGED // 2


def build_step(root, op, handle=None):
    """Apply one builder operation; returns False if it does not apply (would leave refs dangling).
    With `handle` the operation goes through that long-lived Repo (whose caches may be stale); whether a ref
    operation applies is then still decided by a fresh view of the directory, so that the harness itself
    never creates a dangling ref."""
    u = universe()
    g = u["groups"]
    r = handle if handle is not None else _open(root)
    truth = _open(root) if handle is not None else r
    try:
        st = r.object_store
        k = op[0]
        if k == "age":
            files = [f for f in _object_files(root) if not _is_old(f)]
            if not files:
                return False
            then = _time.time() - AGED
            for f in files:
                os.utime(f, (then, then))
            return True
        if k in ("loose", "pack", "alt"):
            objs = [o for name in op[1].split("+") for o in g[name]]
            if k == "loose":
                for o in objs:
                    st.add_object(o)
            elif k == "pack":
                st.add_objects([(o, None) for o in objs])
            else:
                from dulwich.object_store import DiskObjectStore

                altp = os.path.join(root, "alt-objects")
                if not os.path.isdir(altp):
                    DiskObjectStore.init(altp)
                    st.add_alternate_path(altp)
                alt = DiskObjectStore(altp)
                for o in objs:
                    alt.add_object(o)
                alt.close()
            return True
        if k == "ref":
            name = M if op[1] == "m" else TAGREF
            if op[2] is None:
                if name not in r.refs:
                    return False
                # HEAD must not be left dangling on purpose here (unborn HEAD is fine)
                del r.refs[name]
                return True
            target = u[op[2]]
            need = {"c1": g["G1"], "c2": g["G1"] + g["G2"], "tag": g["G1"] + g["G3"], "tag2": g["G1"] + g["G3"]}[op[2]]
            if not _present(truth, need):
                return False
            r.refs[name] = target.id
            return True
        if k == "head":
            if op[1] == "m":
                r.refs.set_symbolic_ref(b"HEAD", M)
                return True
            need = {"c1": g["G1"], "c2": g["G1"] + g["G2"]}[op[1]]
            if not _present(truth, need):
                return False
            # detach: HEAD becomes a direct ref (writing through a symbolic HEAD would move the branch)
            r.refs.remove_if_equals(b"HEAD", None)
            r.refs[b"HEAD"] = u[op[1]].id
            return True
    finally:
        if handle is None:
            r.close()
        else:
            truth.close()
    raise AssertionError(op)


def canon_layout(root):
    """Canonical key of a layout: refs + partition of objects into {loose, pack i (by content), alternate}.
    Pack *names* are dropped, the partition is kept (lookups depend on the partition)."""
    from dulwich.object_store import DiskObjectStore

    r = _open(root)
    try:
        st = r.object_store
        loose = tuple(sorted((x, _is_old(st._get_shafile_path(x))) for x in st._iter_loose_objects()))
        packs = tuple(sorted((tuple(sorted(x for x in p)), _is_old(p._data_path)) for p in st.packs))
        alts = ()
        altp = os.path.join(root, "alt-objects")
        if os.path.isdir(altp):
            a = DiskObjectStore(altp)
            alts = tuple(sorted((x, _is_old(a._get_shafile_path(x))) for x in a))
            a.close()
        refs = tuple(sorted((k, r.refs.read_ref(k)) for k in r.refs.allkeys()))
        return (loose, packs, alts, refs)
    finally:
        r.close()


MAINT_OPS = [
    ("pack_loose_objects",), ("repack",), ("repack_exclude_unreachable",),
    ("gc", 0), ("gc", None), ("gc", 14 * DAY),
    ("prune", None), ("pack_refs",), ("write_midx",), ("write_commit_graph",),
]
T_MAINT_OPS = MAINT_OPS + [("git_repack_ad",), ("git_gc_prune_now",)]


class _Clock:
    def __init__(self, shift):
        self.shift = shift
        self.real = _time.time

    def time(self):
        return self.real() + self.shift

    def __getattr__(self, n):
        return getattr(_time, n)


def run_maint(r, root, op, shift):
    """Run one maintenance operation with the clock shifted by `shift` seconds."""
    import dulwich.gc as gcmod
    import dulwich.object_store as osmod

    clk = _Clock(shift)
    saved = (gcmod.time, osmod.time)
    gcmod.time = clk
    osmod.time = clk
    try:
        st = r.object_store
        k = op[0]
        if k == "pack_loose_objects":
            st.pack_loose_objects()
        elif k == "repack":
            st.repack()
        elif k == "repack_exclude_unreachable":
            from dulwich.gc import find_unreachable_objects

            st.repack(exclude=find_unreachable_objects(st, r.refs))
        elif k == "gc":
            from dulwich.gc import garbage_collect

            garbage_collect(r, grace_period=op[1])
        elif k == "prune":
            st.prune(grace_period=op[1])
        elif k == "pack_refs":
            r.refs.pack_refs(all=True)
        elif k == "write_midx":
            st.write_midx()
        elif k == "write_commit_graph":
            st.write_commit_graph()
        elif k == "git_repack_ad":
            git(["repack", "-a", "-d", "-q"], cwd=os.path.join(root, "repo"))
        elif k == "git_gc_prune_now":
            git(["gc", "--prune=now", "-q"], cwd=os.path.join(root, "repo"))
        else:
            raise AssertionError(op)
    finally:
        gcmod.time, osmod.time = saved


def grace_of(op):
    """Grace period (seconds) below which the op must not delete an unreachable object; None if the op
    is allowed to delete unreachable objects regardless of age; 'never' if it must not delete anything."""
    k = op[0]
    if k == "gc":
        return op[1]  # None: no grace period -> may delete any unreachable object
    if k in ("repack_exclude_unreachable", "git_gc_prune_now"):
        return None
    if k == "git_repack_ad":
        return None  # -a -d drops unreachable packed objects (they were packed = old enough for git)
    return "never"


def opname(op):
    return "%s(%s)" % (op[0], ",".join("default" if a == 14 * DAY else str(a) for a in op[1:])) if len(op) > 1 else op[0]


def case_maintenance(acc, build_path, maint_seq, shift):
    """Build the layout by build_path, then run maint_seq (one live Repo throughout), judging each step."""
    root = fresh_dir("c10")
    try:
        from dulwich.repo import Repo

        os.makedirs(os.path.join(root, "repo"))
        r0 = Repo.init_bare(os.path.join(root, "repo"))
        cfg = r0.get_config()
        cfg.set((b"gc",), b"auto", b"0")
        cfg.write_to_path()
        r0.close()
        for op in build_path:
            build_step(root, tuple(op))
        _judge_sequence(acc, root, [tuple(b) for b in build_path], [tuple(m) for m in maint_seq], shift)
    finally:
        rmtree(root)


def _state_of(root):
    """(closure of refs+HEAD with hashes, all visible ids) through a fresh repo."""
    r = _open(root)
    try:
        tips = []
        for k in r.refs.allkeys():
            try:
                tips.append(r.refs[k])
            except KeyError:
                pass
        clo = closure_of(r.object_store, tips)
        allids = set(r.object_store)
        return clo, allids
    finally:
        r.close()


def _newest_copy(root):
    """{object id: mtime of its most recently written copy} over loose files, packs and alternates."""
    from dulwich.object_store import DiskObjectStore

    out = {}
    stores = [DiskObjectStore(os.path.join(root, "repo", "objects"))]
    try:
        altp = os.path.join(root, "alt-objects")
        if os.path.isdir(altp):
            stores.append(DiskObjectStore(altp))
        for st in stores:
            for x in st._iter_loose_objects():
                out[x] = max(out.get(x, 0), os.path.getmtime(st._get_shafile_path(x)))
            for p in st.packs:
                m = os.path.getmtime(p._data_path)
                for x in p:
                    out[x] = max(out.get(x, 0), m)
    finally:
        for st in stores:
            st.close()
    return out


def _judge_sequence(acc, root, build_path, maint_seq, shift):
    live = _open(root)
    try:
        for i, op in enumerate(maint_seq):
            clo, allids = _state_of(root)
            newest = _newest_copy(root)
            t_op = _time.time() + shift
            desc = "layout [%s] then %s at clock+%dd" % (" ; ".join("/".join(str(x) for x in b) for b in build_path),
                                                          " ; ".join(opname(m) for m in maint_seq[: i + 1]), shift // DAY)
            rpl = rp(case_maintenance, [list(b) for b in build_path], [list(m) for m in maint_seq[: i + 1]], shift)
            K = "maintenance:%s:" % op[0]
            acc.count("maintenance_steps")
            try:
                run_maint(live, root, op, shift)
                acc.outcome("%s:ok" % op[0])
            except Exception as e:
                acc.outcome("%s:raises:%s" % (op[0], type(e).__name__))
                # an operation may fail, but never at the price of reachable objects (checked below)
            fresh = _open(root)
            try:
                for who, repo in (("live", live), ("reopened", fresh)):
                    for oid in sorted(clo):
                        try:
                            o = repo.object_store[oid]
                            if raw_hash(o) != oid:
                                acc.violation(K + "reachable-object-corrupted(%s-store)" % who, "%s: %s now hashes to %s" % (desc, short(oid), raw_hash(o)[:8].decode()), rpl)
                                return
                        except KeyError:
                            acc.violation(K + "reachable-object-lost(%s-store)" % who, "%s: %s (reachable from a ref or HEAD) is no longer readable" % (desc, short(oid)), rpl)
                            return
                        except Exception as e:
                            acc.violation(K + "reachable-object-unreadable(%s-store):%s" % (who, type(e).__name__), "%s: %s: %s" % (desc, short(oid), str(e)[:80]), rpl)
                            return
                after = set(fresh.object_store)
                gone = allids - after - clo
                g = grace_of(op)
                if gone:
                    if g == "never":
                        acc.violation(K + "deletes-unreachable-object-although-not-a-pruning-operation", "%s: %s disappeared" % (desc, sorted(short(x) for x in gone)), rpl)
                        return
                    young = sorted(x for x in gone if t_op - newest.get(x, 0) < g - 60) if g is not None else []
                    if young:
                        acc.violation(K + "deletes-unreachable-object-younger-than-grace-period",
                                      "%s: %s disappeared although its newest copy was only %d days old (grace %d days)" % (
                                          desc, [short(x) for x in young], int(t_op - newest.get(young[0], 0)) // DAY, g // DAY), rpl)
                        return
                    acc.outcome("%s:pruned-unreachable" % op[0])
            finally:
                fresh.close()
    finally:
        live.close()


# =========================================================================== (C) two handles on one repository
# A long-lived Repo ("warm": it has listed the packs, read the refs and looked objects up) keeps working after ANOTHER
# handle - another process in real life - has run maintenance: it re-adds objects that the foreign maintenance dropped,
# makes them reachable again and then runs maintenance itself.  Its view of the packs is stale at that point; the
# statement ("for every history") still requires that nothing reachable is lost.
FOREIGN_OPS = [("gc", None), ("repack_exclude_unreachable",), ("repack",), ("pack_loose_objects",)]
T_FOREIGN_OPS = FOREIGN_OPS + [("gc", 0)]
REVIVE = [
    [],
    [("loose", "G2"), ("ref", "m", "c2")],
    [("pack", "G2"), ("ref", "m", "c2")],
    [("loose", "G1"), ("ref", "m", "c1")],
    [("loose", "G1"), ("loose", "G2"), ("head", "c2")],
    [("loose", "G3"), ("ref", "t", "tag2")],
    [("loose", "G1"), ("loose", "G3"), ("ref", "t", "tag")],
]
OWN_OPS = [("pack_loose_objects",), ("repack",), ("gc", 0)]
T_OWN_OPS = OWN_OPS + [("gc", None), ("prune", None), ("repack_exclude_unreachable",)]


def _warm(r):
    """Fill every cache a long-lived handle can have: pack list, pack indexes and data files, refs."""
    st = r.object_store
    ids = sorted(st)
    for x in ids:
        st.get_raw(x)
        x in st
    r.refs.as_dict()
    st.get_commit_graph() if hasattr(st, "get_commit_graph") else None
    return ids


def _closure_now(root):
    clo, allids = _state_of(root)
    return clo


def _check_closure(acc, K, desc, rpl, clo, views):
    for who, repo in views:
        for oid in sorted(clo):
            try:
                o = repo.object_store[oid]
                if raw_hash(o) != oid:
                    acc.violation(K + "reachable-object-corrupted(%s-store)" % who, "%s: %s now hashes to %s" % (desc, short(oid), raw_hash(o)[:8].decode()), rpl)
                    return False
            except KeyError:
                acc.violation(K + "reachable-object-lost(%s-store)" % who, "%s: %s (reachable from a ref or HEAD) is no longer readable" % (desc, short(oid)), rpl)
                return False
            except Exception as e:
                acc.violation(K + "reachable-object-unreadable(%s-store):%s" % (who, type(e).__name__), "%s: %s: %s" % (desc, short(oid), str(e)[:80]), rpl)
                return False
    return True


def case_two_handles(acc, build_path, foreign, revive, own, shift):
    """layout ; warm handle A opened ; `foreign` maintenance by another handle ; A re-adds objects and re-points refs
    (`revive`) ; A runs `own` maintenance.  After every step the closure of all refs and HEAD - as a fresh handle sees
    it before the step, plus what the step itself made reachable - must be readable through A and through a fresh handle."""
    root = fresh_dir("c10h")
    try:
        from dulwich.repo import Repo

        os.makedirs(os.path.join(root, "repo"))
        r0 = Repo.init_bare(os.path.join(root, "repo"))
        cfg = r0.get_config()
        cfg.set((b"gc",), b"auto", b"0")
        cfg.write_to_path()
        r0.close()
        build_path = [tuple(b) for b in build_path]
        revive = [tuple(b) for b in revive]
        foreign, own = tuple(foreign), tuple(own)
        for op in build_path:
            build_step(root, op)
        before = canon_layout(root)
        A = _open(root)
        try:
            _warm(A)
            desc0 = "layout [%s] ; handle A warmed ; another handle runs %s" % (" ; ".join("/".join(str(x) for x in b) for b in build_path), opname(foreign))
            rpl = rp(case_two_handles, [list(b) for b in build_path], list(foreign), [list(b) for b in revive], list(own), shift)
            clo = _closure_now(root)
            B = _open(root)
            try:
                run_maint(B, root, foreign, shift)
            except Exception as e:
                acc.outcome("two-handles:foreign:%s:raises:%s" % (foreign[0], type(e).__name__))
            finally:
                B.close()
            if canon_layout(root) == before:
                acc.outcome("two-handles:foreign-op-changed-nothing(skipped)")
                return
            acc.count("two_handle_steps")
            F = _open(root)
            try:
                if not _check_closure(acc, "two-handles:after-foreign-%s:" % foreign[0], desc0, rpl, clo, (("warm", A), ("reopened", F))):
                    return
            finally:
                F.close()
            desc = desc0
            for b in revive:
                try:
                    ok = build_step(root, b, handle=A)
                except Exception as e:
                    acc.outcome("two-handles:revive:%s:raises:%s" % (b[0], type(e).__name__))
                    ok = False
                if not ok:
                    acc.outcome("two-handles:revive-step-not-applicable")
                    return
                desc += " ; A: " + "/".join(str(x) for x in b)
                acc.count("two_handle_steps")
                clo = _closure_now(root) | clo
                F = _open(root)
                try:
                    if not _check_closure(acc, "two-handles:after-revive-%s:" % b[0], desc, rpl, clo, (("warm", A), ("reopened", F))):
                        return
                finally:
                    F.close()
            clo = _closure_now(root)
            desc += " ; A: " + opname(own)
            try:
                run_maint(A, root, own, shift)
                acc.outcome("two-handles:%s:ok" % own[0])
            except Exception as e:
                acc.outcome("two-handles:%s:raises:%s" % (own[0], type(e).__name__))
            acc.count("two_handle_steps")
            acc.count("two_handle_histories")
            F = _open(root)
            try:
                _check_closure(acc, "two-handles:own-%s:" % own[0], desc, rpl, clo, (("warm", A), ("reopened", F)))
            finally:
                F.close()
        finally:
            A.close()
    finally:
        rmtree(root)


def work_two_handles(task):
    acc = Acc()
    for build_path, foreign, shift, revives, owns in task:
        for rv in revives:
            for own in owns:
                case_two_handles(acc, build_path, foreign, rv, own, shift)
    return acc


def explore_layouts(depth):
    """BFS closure (bounded depth) of the builder operations; returns list of build paths, one per
    distinct canonical layout."""
    root = fresh_dir("c10l")
    try:
        from dulwich.repo import Repo

        def fresh_repo():
            p = os.path.join(root, "repo")
            if os.path.exists(root):
                shutil.rmtree(root)
            os.makedirs(p)
            r0 = Repo.init_bare(p)
            cfg = r0.get_config()
            cfg.set((b"gc",), b"auto", b"0")
            cfg.write_to_path()
            r0.close()

        fresh_repo()
        seen = {canon_layout(root): []}
        level = [[]]
        for d in range(depth):
            nxt = []
            for path in level:
                for op in BUILD_OPS:
                    fresh_repo()
                    ok = True
                    for b in path:
                        build_step(root, b)
                    try:
                        ok = build_step(root, op)
                    except Exception:
                        ok = False
                    if not ok:
                        continue
                    key = canon_layout(root)
                    if key in seen:
                        continue
                    seen[key] = path + [op]
                    nxt.append(path + [op])
            level = nxt
        return list(seen.values())
    finally:
        rmtree(root)


def work_layouts(task):
    """Expand one BFS level for a chunk of paths (parallel layout exploration)."""
    paths = task
    root = fresh_dir("c10w")
    out = []
    try:
        from dulwich.repo import Repo

        def fresh_repo():
            if os.path.exists(root):
                shutil.rmtree(root)
            p = os.path.join(root, "repo")
            os.makedirs(p)
            r0 = Repo.init_bare(p)
            cfg = r0.get_config()
            cfg.set((b"gc",), b"auto", b"0")
            cfg.write_to_path()
            r0.close()

        for path in paths:
            for op in BUILD_OPS:
                fresh_repo()
                for b in path:
                    build_step(root, b)
                try:
                    ok = build_step(root, op)
                except Exception:
                    ok = False
                if not ok:
                    continue
                out.append((canon_layout(root), path + [op]))
    finally:
        rmtree(root)
    return out


def layouts_parallel(ctx, depth):
    seen = {}
    level = [[]]
    # the empty repository
    seen[("empty",)] = []
    for d in range(depth):
        found = []
        for res in pmap(work_layouts, split(level, ctx.jobs * 2), jobs=ctx.jobs):
            found.extend(res)
        found.sort(key=lambda t: (len(t[1]), repr(t[1])))
        nxt = []
        for key, path in found:
            if key in seen:
                continue
            seen[key] = path
            nxt.append(path)
        level = nxt
    return [p for p in seen.values()]


def work_maint(task):
    acc = Acc()
    for build_path, seqs, shift in task:
        for seq in seqs:
            case_maintenance(acc, build_path, seq, shift)
        acc.count("layouts_x_clock")
    return acc


def run(ctx):
    q = ctx.quick
    # (B) races
    races = []
    for layout in ("loose", "pack+loose") + (() if q else ("two-packs",)):
        for reader_op in ("getitem", "contains", "get_raw", "iter"):
            for repack_op in ("pack_loose_objects", "repack", "gc"):
                for warm in (False, True):
                    if q and reader_op == "get_raw" and layout != "loose":
                        continue
                    races.append((layout, reader_op, repack_op, warm, 1 if q else 2))
    # a multi-pack-index over two packs; the reader may know the packs and the index without having opened a pack
    for reader_op in ("getitem", "contains", "get_raw") + (() if q else ("iter",)):
        for repack_op in ("repack", "gc") + (() if q else ("pack_loose_objects",)):
            for warm in (False, "listed") + (() if q else (True,)):
                races.append(("two-packs+midx", reader_op, repack_op, warm, 1 if q else 2))
    pmap_acc(work_race, ctx.order(races), ctx.acc, jobs=ctx.jobs)
    # (A) sequential maintenance
    paths = layouts_parallel(ctx, 3 if q else 4)
    ops = MAINT_OPS if q else T_MAINT_OPS
    seqs1 = [[m] for m in ops]
    pairs = [[a, b] for a in ops for b in ops]
    if q:
        # pairs: maintenance followed by a pruning or repacking step (where a stale view would bite)
        pairs = [[a, b] for a in ops for b in (("gc", 0), ("repack",)) if a != b]
    tasks = []
    for p in paths:
        for shift in (0, 30 * DAY):
            tasks.append((p, seqs1 + pairs if (not q or len(p) >= 3) else seqs1, shift))
    chunks = split(ctx.order(tasks), ctx.jobs * 8)
    pmap_acc(work_maint, chunks, ctx.acc, jobs=ctx.jobs)
    # (C) two handles: layouts reachable by <=3 builder operations in both tiers
    paths3 = [p for p in paths if len(p) <= 3]
    t2 = []
    for p in paths3:
        if not any(b[0] in ("loose", "pack", "alt") for b in p):
            continue
        for f in (FOREIGN_OPS[:3] if q else T_FOREIGN_OPS):
            for shift in (0,):
                t2.append((p, f, shift, REVIVE[:4] + REVIVE[5:6] if q else REVIVE, OWN_OPS[::2] if q else T_OWN_OPS))
    pmap_acc(work_two_handles, split(ctx.order(t2), ctx.jobs * 8), ctx.acc, jobs=ctx.jobs)
    n = ctx.acc.n
    ctx.level = "model_checking"
    ctx.coverage.update(
        states=len(paths),
        transitions=n.get("maintenance_steps", 0) + n.get("two_handle_steps", 0),
        traces_validated_against_impl=n.get("maintenance_steps", 0) + n.get("race_executions", 0) + n.get("two_handle_steps", 0),
        evaluations=n.get("maintenance_steps", 0) + n.get("race_executions", 0) + n.get("two_handle_steps", 0),
        distinct_nontrivial=len(ctx.acc.classes),
        rule="(A) layouts = distinct canonical repositories (refs + partition of objects into loose / packs / alternate) reachable by <=%d of %d builder "
             "operations over a 13-object universe (incl. a tag of a tag and a tree with symlink, executable, subtree and gitlink entries); from each, every maintenance operation and pair (of %d) under clock +0 and +30 days; oracle on live and reopened store. "
             "(B) reader x repacker x layout x warm/cold, all interleavings with <=%d preemption(s) (conflict-filtered). "
             "(C) two handles: from every layout of <=3 builder operations a warm long-lived Repo A; each of %d foreign maintenance operations run by another "
             "handle (kept when it changed the layout) x %d revive programs through A (re-add dropped objects loose or packed, re-point a ref or HEAD) x %d "
             "maintenance operations through A; closure readable through A and a fresh handle after every step." % (
                 3 if q else 4, len(BUILD_OPS), len(ops), 1 if q else 2, len(FOREIGN_OPS[:3] if q else T_FOREIGN_OPS), 5 if q else len(REVIVE), len(OWN_OPS[::2] if q else T_OWN_OPS)),
        exhaustive=True,
        layouts=len(paths),
        race_executions=n.get("race_executions", 0),
        two_handle_histories=n.get("two_handle_histories", 0),
    )
    ctx.assumptions += [
        "the clock is shifted for the maintenance code (dulwich.gc / dulwich.object_store time module); the builder operation 'age' "
        "additionally makes every object file present so far 20 days old (utime), so that copies of one object can differ in age; "
        "an object's age is that of its most recently written copy",
        "objects reachable only from reflogs / index / other worktrees are not part of the statement (refs and HEAD only)",
        "readers and repackers are processes sharing only the repository directory",
    ]


def replay(ctx, obj):
    import sys

    from engines.common import replay_generic

    return replay_generic(sys.modules[__name__], ctx, obj)
