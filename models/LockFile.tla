------------------------------ MODULE LockFile ------------------------------
(* The git lock-file protocol as implemented by dulwich.file._GitFile, at the granularity of its API calls.
   Every behaviour of this model is replayed transition by transition on the real implementation
   (props/C07.py, part 5); the model is evidence only in so far as that replay agrees. *)
EXTENDS Naturals, FiniteSets

CONSTANTS Actors, Rounds, None

VARIABLES lock,      \* the actor whose lock file exists, or None
          content,   \* <<actor, round>> whose payload the target holds, or None for the initial content
          pc,        \* pc[a] \in {"idle", "holding"}
          round,     \* number of rounds actor a has completed (a failed acquisition consumes a round)
          last       \* outcome of the last step: <<actor, "acquired"|"locked"|"committed"|"aborted">> (observation)

vars == <<lock, content, pc, round, last>>

Init == /\ lock = None
        /\ content = None
        /\ pc = [a \in Actors |-> "idle"]
        /\ round = [a \in Actors |-> 0]
        /\ last = <<None, "init">>

Acquire(a) == /\ pc[a] = "idle" /\ round[a] < Rounds
              /\ IF lock = None
                 THEN /\ lock' = a
                      /\ pc' = [pc EXCEPT ![a] = "holding"]
                      /\ round' = round
                      /\ last' = <<a, "acquired">>
                 ELSE /\ lock' = lock          \* FileLocked: nothing changes but the caller's round is spent
                      /\ pc' = pc
                      /\ round' = [round EXCEPT ![a] = @ + 1]
                      /\ last' = <<a, "locked">>
              /\ content' = content

Commit(a) == /\ pc[a] = "holding"
             /\ content' = <<a, round[a]>>
             /\ lock' = None
             /\ pc' = [pc EXCEPT ![a] = "idle"]
             /\ round' = [round EXCEPT ![a] = @ + 1]
             /\ last' = <<a, "committed">>

Abort(a) == /\ pc[a] = "holding"
            /\ content' = content
            /\ lock' = None
            /\ pc' = [pc EXCEPT ![a] = "idle"]
            /\ round' = [round EXCEPT ![a] = @ + 1]
            /\ last' = <<a, "aborted">>

Next == \E a \in Actors : Acquire(a) \/ Commit(a) \/ Abort(a)

Spec == Init /\ [][Next]_vars

MutualExclusion == Cardinality({a \in Actors : pc[a] = "holding"}) <= 1
LockMatchesHolder == \A a \in Actors : (pc[a] = "holding") <=> (lock = a)
=============================================================================
