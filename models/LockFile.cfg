CONSTANTS
  Actors = {a0, a1, a2}
  Rounds = 2
  None = None
INIT Init
NEXT Next
INVARIANT MutualExclusion
INVARIANT LockMatchesHolder
CHECK_DEADLOCK FALSE
